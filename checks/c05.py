"""C05 - gamma is 1 - observed/expected over the requested chance samples.

``compute_gamma`` runs in the simulated pool (seeded schedule shapes and worker
counts, solver faults striking a subset of the jobs) with a *recording
sampler* (wrapper on the ``sample_from_continuum`` property of both sampler
classes) and a monitor on the alignment entry points.  The recorded history -
ordered sampled continua, per-job top-level alignment call - and the returned
``GammaResults`` are judged by:

 1. count: draws == chance alignments == n_samples (no precision) or
    max(n_samples, N_required) with N_required from refmodel.gamma_arith over
    the first n chance disorders (named levels map to 0.01/0.02/0.1);
 2. the chance alignments' continua are in bijection with the drawn samples;
    each sample is a valid non-empty continuum honouring the sampler's
    annotator contract (incl. ground-truth subsets);
 3. every chance alignment is a partition (cover in soft mode) of its sample
    and its disorder equals the sequential recomputation of the same mode on
    that sample outside the pool; same for the observed disorder, and
    best_alignment.continuum is the input continuum;
 4. expected = mean chance disorder, gamma = 1 - observed/expected (exactly 1
    when observed is 0), gamma <= 1, gamma == 1 for identical annotators.

(workload note) clause 4 is plain arithmetic any input generator would decide;
the simulator's contribution is clauses 1-3 under permuted completion orders,
both batches and partial solver fallback.
"""
import copy
import math

import numpy as np

import pygamma_agreement as pa
from refmodel import align_oracle as ao
from refmodel import gamma_arith as ga
from simkit import sched as _sched
from simkit import world
from simkit.monitor import AlignmentMonitor
from simkit.runner import digest
from . import common

ID = "C05"
LEVEL = "exploration"
TIERS = {
    "quick": {"runs": 500, "wall": 80, "run_timeout": 240, "shrink_s": 60},
    "thorough": {"runs": 30000, "wall": 1100, "run_timeout": 400, "shrink_s": 180},
}
RULE = ("case = seeded gamma scenario (continuum <=4x7, dissimilarity, sampler statistical/shuffle-int/shuffle-float/default, mode "
        "exact/fast/soft, n_samples 1..10, precision none/numeric/named, ground-truth subset) x seeded schedule x solver fault plan; "
        "history oracle over recorded draws + monitored job calls + GammaResults. distinct_nontrivial = distinct (scenario, schedule "
        "digest, fault plan) triples in which a second batch was taken, or a fault fired, or a cross-thread switch happened inside a job")
ASSUMPTIONS = [
    "CV may use the population or the sample standard deviation (the statement does not say); float32 rounding band 3e-4 on CV",
    "precision levels that would need more than 1500 samples are replaced by a numeric precision needing a moderate second batch",
    "disorders compared with |a-b| <= 1e-5*max(1,|a|,|b|)",
]
COMPONENTS = {"real": common.REAL_COMPONENTS, "stub": common.STUB_COMPONENTS}
DRAW_CAP_SLACK = 50


class TooManyDraws(BaseException):
    pass


class SamplerRecorder:
    CLASSES = (pa.StatisticalContinuumSampler, pa.ShuffleContinuumSampler)

    def __init__(self, cap=None):
        self.draws = []       # (sample, thread id)
        self.cap = cap
        self._orig = {}

    def install(self):
        rec = self
        for cls in self.CLASSES:
            prop = cls.__dict__["sample_from_continuum"]
            self._orig[cls] = prop

            def fget(self_, _orig=prop.fget):
                s = _orig(self_)
                sc = _sched.ACTIVE
                rec.draws.append((s, sc.current.id if sc is not None and sc.current is not None else 0))
                if rec.cap is not None and len(rec.draws) > rec.cap:
                    raise TooManyDraws(f"more than {rec.cap} samples drawn")
                return s
            setattr(cls, "sample_from_continuum", property(fget))
        return self

    def uninstall(self):
        for cls, prop in self._orig.items():
            setattr(cls, "sample_from_continuum", prop)
        self._orig.clear()

    def __enter__(self):
        return self.install()

    def __exit__(self, *exc):
        self.uninstall()
        return False


def gen(ch, tier):
    scn = world.gen_gamma_scenario(ch.sub("scn"), max_annot=4, max_units=7, max_samples=10,
                                   precisions=(None, None, 0.3, 0.2, 0.15, "low", "medium", "high"), large_fast=0.06)
    # pre-history: the continuum may carry a window size recorded by an earlier fast-mode computation
    pre_window = ch.choice([None, None, None, 1, 2, 3]) if scn["mode"] != "fast" else None
    # pre-history: the sampler object may have served an earlier gamma computation on another continuum
    prior = None
    if scn["sampler"] != "default" and ch.coin(0.2):
        prior = {"continuum": world.gen_continuum(ch.sub("prior"), max_annot=3, max_units=4, labelset=scn["continuum"]["labelset"],
                                                  allow_empty_annot=False, min_total_units=3),
                 "np_seed": ch.randint(0, 2**31 - 1)}
    return {"scenario": scn, "schedule": world.gen_schedule(ch.sub("sched")),
            "faults": world.gen_faults(ch.sub("faults"), 0.4), "pre_window": pre_window, "prior_gamma": prior}


def _identical_annotators(cont):
    units = [sorted(map(tuple, u)) for _, u in cont["annotators"]]
    return all(u == units[0] for u in units) and len(units[0]) > 0


def _recompute(mode, sample, dissim):
    """the alignment the *requested mode* stands for, recomputed sequentially"""
    if mode == "soft":
        return sample.get_best_soft_alignment(dissim)
    if mode == "fast" and sample.best_window_size != np.inf:
        return sample.get_fast_alignment(dissim, sample.best_window_size)
    return sample.get_best_alignment(dissim)


def _run_gamma(scn, continuum, dissim, schedule, faults, cap, sampler=None):
    rec = SamplerRecorder(cap)
    mon = AlignmentMonitor()

    def work():
        np.random.seed(scn["np_seed"])
        smp = sampler if sampler is not None else world.build_sampler(scn["sampler"])
        return continuum.compute_gamma(**world.gamma_kwargs(scn, dissim, smp))
    with rec, mon:
        out = common.sim_call(work, schedule, faults=faults)
    return out, rec, mon


def run(case):
    scn = copy.deepcopy(case["scenario"])
    continuum = world.build_continuum(scn["continuum"])
    dissim = world.build_dissim(scn["dissim"], fresh=True)   # fresh per run: exact replay in a fresh process
    stats, violations = {}, []
    keys = {"scenarios": [digest(case["scenario"])], "nontrivial": [], "schedules": []}
    if case.get("pre_window") is not None:
        # state left behind by an earlier fast-mode gamma on the same continuum (documented side effect)
        continuum.best_window_size = case["pre_window"]
        stats["pre_window_set"] = 1
    n = scn["n_samples"]
    schedule = case["schedule"]
    # ---- preliminary canonical run (precision off) to size the second batch -----
    if scn["precision"] is not None:
        pre = dict(scn, precision=None)
        out_p, _, _ = _run_gamma(pre, continuum, dissim, world.CANONICAL_SCHEDULE, None, None)
        if out_p.error is not None:
            scn["precision"] = None
        else:
            first = [float(a.disorder) for a in out_p.value.chance_alignments]
            band = ga.n_required_band(first, scn["precision"])
            if band is None:
                scn["precision"] = None
                stats["cv_undefined"] = 1
            else:
                need = max(band)
                if need > 1500 or (need > 300 and not isinstance(scn["precision"], str)):
                    # replace by a numeric precision that needs a moderate second batch
                    mu = sum(first) / len(first)
                    sd = math.sqrt(sum((x - mu) ** 2 for x in first) / len(first))
                    target = n + 3 + (case["scenario"]["np_seed"] % 30)
                    if sd > 0:
                        scn["precision"] = min(0.9, max(1e-3, round(1.96 * (sd / mu) / math.sqrt(target), 4)))
                        stats["precision_replaced"] = 1
                    else:
                        scn["precision"] = 0.5
                elif need > 300:
                    schedule = dict(schedule, trace_lines=False)
                    stats["named_level_large_batch"] = 1
    cap = None
    if scn["precision"] is None:
        cap = n + DRAW_CAP_SLACK
    else:
        cap = 1500 + 400
    # ---- the judged run -----------------------------------------------------------
    used_sampler = None
    if case.get("prior_gamma"):
        used_sampler = world.build_sampler(scn["sampler"])
        pc = world.build_continuum(case["prior_gamma"]["continuum"])
        try:
            np.random.seed(case["prior_gamma"]["np_seed"])
            pc.compute_gamma(dissimilarity=dissim, n_samples=2, sampler=used_sampler)
            stats["sampler_reused_after_other_continuum"] = 1
        except Exception:  # noqa: BLE001 - the prior computation is only history
            pass
    out, rec, mon = _run_gamma(scn, continuum, dissim, schedule, case.get("faults"), cap, used_sampler)
    common.sim_stats(out, stats)
    sd = common.sched_digest(out)
    keys["schedules"].append(sd)
    mode = scn["mode"]
    if isinstance(out.error, TooManyDraws):
        violations.append({"kind": "sample_count", "msg": f"{out.error} (n_samples={n}, precision={scn['precision']})",
                           "sig": {"what": "too_many"}})
        return {"violations": violations, "stats": stats, "keys": keys, "digest": digest("toomany")}
    if out.error is not None:
        # a scenario on which compute_gamma raises is not judged by this property
        stats["scenario_raises"] = 1
        stats["raises_" + type(out.error).__name__] = 1
        return {"violations": [], "stats": stats, "keys": keys, "digest": digest(["raises", type(out.error).__name__]),
                "sample": {"case": case, "raised": repr(out.error)[:200]}}
    g = out.value
    chance = list(g.chance_alignments)
    chance_d = [float(a.disorder) for a in chance]
    draws = [s for s, _ in rec.draws]
    # -- 1. counts ------------------------------------------------------------------
    if scn["precision"] is None:
        exp_counts = {n}
    else:
        band = ga.n_required_band(chance_d[:n], scn["precision"]) if len(chance_d) >= n else None
        exp_counts = None if band is None else {max(n, b) for b in band}
    if len(draws) != len(chance):
        violations.append({"kind": "sample_count", "msg": f"{len(draws)} samples were drawn but {len(chance)} chance alignments "
                                                        f"are held", "sig": {"what": "draws_vs_alignments"}})
    if exp_counts is not None and len(chance) not in exp_counts:
        violations.append({"kind": "sample_count",
                           "msg": f"{len(chance)} chance alignments held; expected {sorted(exp_counts)} for n_samples={n}, "
                                  f"precision={scn['precision']} (first-batch disorders {chance_d[:n][:6]}...)",
                           "sig": {"what": "n_required"}})
    if g.n_samples != len(chance):
        violations.append({"kind": "sample_count", "msg": f"n_samples reports {g.n_samples}, {len(chance)} alignments held",
                           "sig": {"what": "n_samples_field"}})
    second = len(chance) > n
    if second:
        stats["second_batch_taken"] = 1
        stats["second_batch_samples"] = len(chance) - n
    # -- 2. bijection samples <-> chance alignments, sample validity ------------------
    by_id = {}
    for s in draws:
        by_id[id(s)] = by_id.get(id(s), 0) + 1
    if any(c > 1 for c in by_id.values()):
        violations.append({"kind": "stale_sample", "msg": "the same sample object was drawn twice", "sig": {}})
    used = {}
    content = {}
    for s in draws:
        content.setdefault(world.continuum_key(s), []).append(s)
    unmatched = 0
    for a in chance:
        c = a.continuum
        if c is None:
            unmatched += 1
            continue
        if id(c) in by_id:
            used[id(c)] = used.get(id(c), 0) + 1
        else:
            k = world.continuum_key(c)
            pool = content.get(k, [])
            cand = next((s for s in pool if used.get(id(s), 0) == 0), None)
            if cand is None:
                unmatched += 1
            else:
                used[id(cand)] = 1
    if unmatched:
        violations.append({"kind": "stale_sample",
                           "msg": f"{unmatched} chance alignment(s) are not alignments of a drawn sample", "sig": {"what": "unmatched"}})
    dup = [k for k, v in used.items() if v > 1]
    if dup:
        violations.append({"kind": "stale_sample", "msg": f"{len(dup)} sample(s) back more than one chance alignment",
                           "sig": {"what": "reused"}})
    if len(draws) == len(chance) and not unmatched and not dup and len(used) != len(draws):
        violations.append({"kind": "stale_sample", "msg": "some drawn samples back no chance alignment", "sig": {"what": "unused"}})
    gt = scn.get("gt") or [nme for nme, _ in scn["continuum"]["annotators"]]
    for i, s in enumerate(draws[:400]):
        problems = []
        if not s:
            problems.append("empty sample")
        if any(u.segment.end - u.segment.start <= 0 for _, u in s):
            problems.append("non-positive duration")
        if scn["sampler"] in ("stat", "default"):
            if list(s.annotators) != sorted(gt):
                problems.append(f"annotators {list(s.annotators)} != ground truth {sorted(gt)}")
        elif len(s.annotators) != len(gt):
            problems.append(f"{len(s.annotators)} annotators, ground truth has {len(gt)}")
        if problems:
            violations.append({"kind": "invalid_sample", "msg": f"sample #{i}: " + "; ".join(problems), "sig": {}})
            break
    # -- 3. alignments: structure + sequential recomputation --------------------------
    cover = mode == "soft"
    if g.best_alignment.continuum is not continuum:
        violations.append({"kind": "observed", "msg": "best_alignment.continuum is not the input continuum", "sig": {}})
    errs = ao.structure_errors(g.best_alignment, continuum, cover=cover)
    if errs:
        violations.append({"kind": "observed", "msg": "observed alignment invalid: " + "; ".join(errs[:2]), "sig": {}})
    obs_ref = float(_recompute(mode, continuum, dissim).disorder)
    if not ao.close(float(g.observed_disorder), obs_ref):
        violations.append({"kind": "observed", "msg": f"observed disorder {float(g.observed_disorder)!r} but the {mode} alignment of "
                                                    f"the input recomputed sequentially has {obs_ref!r}", "sig": {"what": "value"}})
    limit = 60
    for i, a in enumerate(chance[:limit]):
        c = a.continuum
        if c is None:
            continue
        errs = ao.structure_errors(a, c, cover=cover)
        if errs:
            violations.append({"kind": "chance_alignment", "msg": f"chance alignment #{i} invalid: " + "; ".join(errs[:2]), "sig": {}})
            break
        try:
            ref = float(_recompute(mode, c, dissim).disorder)
        except Exception:  # noqa: BLE001
            continue
        if not ao.close(float(a.disorder), ref):
            violations.append({"kind": "chance_alignment",
                               "msg": f"chance alignment #{i} has disorder {float(a.disorder)!r}; the {mode} alignment of its sample "
                                      f"recomputed sequentially has {ref!r}", "sig": {"what": "value"}})
            break
    stats["alignments_recomputed"] = min(limit, len(chance)) + 1
    # job routing: in exact mode every job's top-level call must be the exact algorithm, etc.
    top = [c for c in mon.calls if c.depth == 0 and c.error is None]
    want = {"exact": "get_best_alignment", "soft": "get_best_soft_alignment"}.get(mode)
    if want is not None:
        wrong = [c.method for c in top if c.method != want]
        if wrong:
            violations.append({"kind": "wrong_mode", "msg": f"mode {mode}: {len(wrong)} top-level alignment calls were {set(wrong)}",
                               "sig": {}})
    # -- 4. arithmetic -----------------------------------------------------------------
    if chance_d:
        exp_ref = ga.expected_disorder(chance_d)
        if not ao.close(float(g.expected_disorder), exp_ref):
            violations.append({"kind": "arithmetic", "msg": f"expected disorder {float(g.expected_disorder)!r}, mean of the "
                                                          f"{len(chance_d)} chance disorders is {exp_ref!r}", "sig": {"what": "expected"}})
        gam = float(g.gamma)
        if float(g.observed_disorder) == 0:
            if gam != 1:
                violations.append({"kind": "arithmetic", "msg": f"observed disorder 0 but gamma={gam!r}", "sig": {"what": "gamma1"}})
        elif exp_ref != 0:
            ref = ga.gamma(g.observed_disorder, chance_d)
            if not ao.close(gam, ref, rel=1e-4, abs_=1e-5):
                violations.append({"kind": "arithmetic", "msg": f"gamma={gam!r}, 1 - observed/expected = {ref!r}",
                                   "sig": {"what": "gamma"}})
        if gam > 1 + 1e-6:
            violations.append({"kind": "arithmetic", "msg": f"gamma={gam!r} > 1", "sig": {"what": "gamma_gt_1"}})
        if _identical_annotators(scn["continuum"]) and not (scn.get("gt")) and gam != 1:
            violations.append({"kind": "arithmetic", "msg": f"all annotators identical but gamma={gam!r}",
                               "sig": {"what": "identical"}})
    if _identical_annotators(scn["continuum"]):
        stats["identical_annotators"] = 1
    fired = out.faults.fired
    if second or fired or out.sched.in_job_switches > 0:
        keys["nontrivial"].append(digest([keys["scenarios"][0], sd, case.get("faults")]))
    stats["chance_alignments"] = len(chance)
    stats["draws_in_workers"] = sum(1 for _, t in rec.draws if t != 0)
    if isinstance(case["scenario"]["precision"], str) and isinstance(scn["precision"], str):
        stats["named_level_" + scn["precision"]] = 1
    return {"violations": violations, "stats": stats, "keys": keys,
            "digest": digest([chance_d, float(g.gamma), [v["kind"] for v in violations]]),
            "sample": {"scenario": case["scenario"], "effective_precision": scn["precision"], "schedule": case["schedule"],
                       "faults": case.get("faults"), "n_chance": len(chance), "gamma": float(g.gamma)}}


def shrink_candidates(case, violation):
    for s in common.shrink_gamma_scenario(case["scenario"]):
        c = copy.deepcopy(case)
        c["scenario"] = s
        yield c
    if case.get("faults", {}).get("mode", "none") != "none":
        c = copy.deepcopy(case)
        c["faults"] = {"mode": "none", "fail": None}
        yield c
    for s in common.shrink_schedule(case["schedule"]):
        c = copy.deepcopy(case)
        c["schedule"] = s
        yield c
    if case["schedule"]["policy"].get("policy") != "seq":
        c = copy.deepcopy(case)
        c["schedule"] = copy.deepcopy(world.CANONICAL_SCHEDULE)
        yield c
    if case.get("pre_window") is not None:
        c = copy.deepcopy(case)
        c["pre_window"] = None
        yield c
    if case.get("prior_gamma"):
        c = copy.deepcopy(case)
        c["prior_gamma"] = None
        yield c

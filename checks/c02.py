"""C02 - best alignment has minimal disorder among all alignments.

Refinement against an executable reference model: for each seeded continuum
and dissimilarity the library's best alignment is computed under the three
MIP back-end configurations reachable through fault injection

    none          -> CBC
    import_error  -> ``import cylp`` raises      -> GLPK_MI
    solver_error  -> every CBC solve raises      -> GLPK_MI

and its disorder must equal the exact minimum over ALL (unpruned) partitions
computed by refmodel.align_oracle (bitmask DP, or an independent HiGHS MILP
for medium sizes).  Schedule search is not relevant for this property; the
simulator contributes the back-end fault dimension.
"""
from refmodel import align_oracle as ao
from simkit import world
from simkit.runner import digest
from . import align_common as ac
from . import common

ID = "C02"
LEVEL = "exploration"
TIERS = {
    "quick": {"runs": 2500, "wall": 70, "run_timeout": 240, "shrink_s": 40},
    "thorough": {"runs": 120000, "wall": 1100, "run_timeout": 400, "shrink_s": 120},
}
RULE = ("case = seeded continuum (2..5 annotators, grid/jitter/nested/staircase/identical/sparse families incl. empty annotators, "
        "exact ties) x dissimilarity (positional; combined with absolute/levenshtein/ordinal/numerical, alpha,beta in {0,.5,1,3}, "
        "delta_empty in {.5,1,1.5,2}); best alignment under 3 solver-fault configurations vs exact optimum over the unpruned "
        "candidate set (DP <= 12 units, HiGHS MILP <= 3000 candidates; 2% dense-overlap cases with 7000-30000 candidates that cross "
        "the buffer-growth boundaries of the candidate enumeration, MILP oracle). distinct_nontrivial = distinct (continuum, dissimilarity) "
        "cases with >= 2 units on >= 2 annotators for which a GLPK fallback actually fired")
ASSUMPTIONS = [
    "pair costs are taken from the dissimilarity's own compiled kernel (C04 is out of scope for this technique)",
    "oracle sizes bounded: DP <= 12 units, MILP <= 3000 candidate unitary alignments (<= 30000 for the dense family)",
    "continua with more than 8000 candidate tuples are aligned under CBC only (GLPK_MI can need minutes there)",
]
COMPONENTS = {"real": common.REAL_COMPONENTS + ["scipy.optimize.milp (HiGHS) - oracle only"],
              "stub": ["cylp importability / CBC solve success (fault injection)"]}


def gen(ch, tier):
    if ch.coin(0.004 if tier == "quick" else 0.02):
        # dense overlap: 10000+ candidates (buffer growth in the candidate enumeration), oracle = independent MILP
        shape = ch.choice([(4, 11), (3, 23), (5, 6)])
        return ac.gen_align_case(ch, min_annot=shape[0], max_annot=shape[0], max_units=shape[1], max_total=120,
                                 max_candidates=30000, families=[("dense", 1)])
    big = ch.coin(0.35)
    if big:
        return ac.gen_align_case(ch, max_annot=ch.choice([2, 3, 3, 4, 5]), max_units=ch.choice([3, 5, 9]),
                                 max_total=40, max_candidates=3000)
    return ac.gen_align_case(ch, max_annot=ch.choice([2, 3, 4, 5]), max_units=4, max_total=12, max_candidates=3000)


def run(case):
    continuum = world.build_continuum(case["continuum"])
    dissim = world.build_dissim(case["dissim"])
    pc = ao.PairCosts(continuum, dissim)
    opt, method = ao.optimum(pc, cover=False)
    stats = {"oracle_" + method: 1}
    violations = []
    fired = 0
    vals = {}
    for cfg in ac.configs_for(case):
        name = ac.config_name(cfg)
        al, err, flt = ac.call_under(cfg, lambda: continuum.get_best_alignment(dissim))
        if cfg["mode"] != "none":
            fired += flt.fired
            stats["fault_cbc_" + cfg["mode"]] = stats.get("fault_cbc_" + cfg["mode"], 0) + flt.fired
        if err is not None:
            violations.append({"kind": "raises", "msg": f"[{name}] get_best_alignment raised {type(err).__name__}: {err}",
                               "sig": {"exc": type(err).__name__, "config": cfg["mode"]}})
            continue
        errs = ao.structure_errors(al, continuum)
        if errs:
            violations.append({"kind": "not_a_partition", "msg": f"[{name}] " + "; ".join(errs[:3]),
                               "sig": {"config": cfg["mode"]}})
            continue
        lib = float(al.disorder)
        vals[name] = lib
        recomputed = ao.alignment_disorder_from_units(pc, al)
        if not ao.close(lib, recomputed):
            violations.append({"kind": "disorder_mismatch",
                               "msg": f"[{name}] reported disorder {lib!r} but its own units give {recomputed!r}",
                               "sig": {"config": cfg["mode"]}})
        if lib > opt and not ao.close(lib, opt):
            violations.append({"kind": "not_minimal",
                               "msg": f"[{name}] best alignment disorder {lib!r} exceeds the exact optimum {opt!r} ({method}) "
                                      f"over all partitions",
                               "sig": {"config": cfg["mode"]}})
        elif lib < opt and not ao.close(lib, opt):
            violations.append({"kind": "below_minimum",
                               "msg": f"[{name}] reported disorder {lib!r} is below the exact optimum {opt!r} ({method})",
                               "sig": {"config": cfg["mode"]}})
    keys = {"cases": [digest(case)], "nontrivial": []}
    nonempty = sum(1 for _, u in case["continuum"]["annotators"] if u)
    if fired and nonempty >= 2 and world.continuum_units(case["continuum"]) >= 2:
        keys["nontrivial"].append(digest(case))
    stats["alignments"] = len(vals)
    stats["candidates"] = pc.candidates_count()
    stats["max_candidates"] = pc.candidates_count()
    return {"violations": violations, "stats": stats, "keys": keys,
            "digest": digest([vals, opt, [v["kind"] for v in violations]]),
            "sample": {"case": case, "optimum": opt, "oracle": method, "library": vals}}


def shrink_candidates(case, violation):
    yield from ac.shrink_align_case(case)

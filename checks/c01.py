"""C01 - best alignment is a partition of the continuum's units; the call returns.

Part A (direct): seeded continua of every shape family (2..5 annotators, empty
annotators, coincident units across annotators, nested / long overlapping
units, unlabelled units, exact grid ties) are aligned under the three MIP
back-end configurations reachable through fault injection.  Post-condition on
every returned alignment: every (annotator, unit) in exactly one unitary
alignment; each unitary alignment has exactly one slot per annotator, >= 1 real
unit, no foreign unit.  Any exception, and any run that does not come back
(wall watchdog), is a violation of "always returns".

Part B (pooled): the same post-condition is evaluated by a monitor on EVERY
``get_best_alignment`` return inside a gamma computation running in the
simulated pool (jobs share one dissimilarity object, line-level pre-emption,
seeded solver faults striking a subset of the jobs), including the window
alignments inside the fast algorithm.

For this property the simulator contributes the back-end fault dimension and
the concurrent sharing; the variety of shapes comes from the scenario
families (workload), not from schedule search.
"""
import copy

import numpy as np

from refmodel import align_oracle as ao
from simkit import world
from simkit.monitor import AlignmentMonitor
from simkit.runner import digest
from . import align_common as ac
from . import common

ID = "C01"
LEVEL = "exploration"
HANG_IS_VIOLATION = True
TIERS = {
    "quick": {"runs": 2500, "wall": 70, "run_timeout": 240, "shrink_s": 40, "p_pooled": 0.2},
    "thorough": {"runs": 80000, "wall": 1100, "run_timeout": 400, "shrink_s": 120, "p_pooled": 0.25},
}
RULE = ("case = seeded continuum (2..5 annotators, 0..30 units per annotator, <= 40000 candidate unitary alignments; families: "
        "jitter, random, grid(ties), identical, nested, staircase, sparse; modifiers: empty annotator, same segment with two labels, "
        "unlabelled units) x dissimilarity; get_best_alignment under {CBC, GLPK/ImportError, GLPK/SolverError} + (a fraction) "
        "inside a pooled gamma computation under a seeded schedule and fault plan, every returned alignment checked by a monitor. "
        "distinct_nontrivial = distinct cases with >= 2 non-empty annotators in which a GLPK fallback fired or a pooled run had a "
        "cross-thread switch inside a job")
ASSUMPTIONS = [
    "unlabelled units are combined only with dissimilarities whose unit-to-unit function is defined on them "
    "(positional, absolute, combined positional+absolute)",
    "a run that exceeds the wall watchdog counts as 'did not return'",
]
COMPONENTS = {"real": common.REAL_COMPONENTS, "stub": common.STUB_COMPONENTS}


def gen(ch, tier):
    cfg = TIERS[tier]
    if ch.coin(0.04):
        # dense overlap: the candidate set is nearly the full product and crosses the 10000 / 15000 / 22500
        # buffer-growth boundaries of the candidate enumeration
        shape = ch.choice([(4, 4, 12), (3, 3, 24), (5, 5, 7), (4, 4, 13)])
        case = ac.gen_align_case(ch, min_annot=shape[0], max_annot=shape[1], max_units=shape[2], max_total=120,
                                 max_candidates=120000, families=[("dense", 1)])
        if ch.coin(0.5):
            # ... and several such alignments computed CONCURRENTLY in the pool with one shared dissimilarity
            # (shuffled samples of a dense continuum are dense too: each job has 10000+ candidates)
            g = ch.sub("gamma")
            case["gamma"] = {"sampler": "shuffle_float", "mode": "exact", "n_samples": g.randint(2, 3),
                             "np_seed": g.randint(0, 2**31 - 1)}
            case["schedule"] = {"workers": g.choice([2, 3, 4]),
                                "policy": {"policy": "random", "seed": g.randint(0, 2**31 - 1),
                                           "p_line": g.choice([0.02, 0.05, 0.2]), "p_coarse": 0.6, "main_scale": 0.0},
                                "trace_lines": True}
            case["faults"] = {"mode": "none", "fail": None}
        return case
    shape = ch.choice([(2, 5, 6), (2, 5, 6), (2, 2, 30), (3, 3, 12), (4, 4, 7), (5, 5, 5), (2, 4, 3)])
    case = ac.gen_align_case(ch, min_annot=shape[0], max_annot=shape[1], max_units=shape[2], max_total=90,
                             max_candidates=40000, allow_none_label=ch.coin(0.3))
    # history on the SAME continuum object before the judged alignment: align, then remove / add units
    if ch.coin(0.25):
        h = ch.sub("history")
        case["history"] = [["align", h.choice(["best", "soft"])]] + \
                          [[h.choice(["remove", "remove", "add"]), h.randint(0, 4), h.randint(0, 30),
                            world.r3(h.uniform(0, 25)), world.r3(h.uniform(0.5, 4))] for _ in range(h.randint(1, 3))] + \
                          ([["align", "best"]] if h.coin(0.3) else [])
    if ch.coin(cfg["p_pooled"]) and world.continuum_units(case["continuum"]) <= 20:
        g = ch.sub("gamma")
        has_none = any(l is None for _, us in case["continuum"]["annotators"] for _, _, l in us)
        case["gamma"] = {"sampler": g.choice(["shuffle_int", "shuffle_float"] if has_none else
                                             ["stat", "shuffle_int", "shuffle_float"]),
                         "mode": g.choice(["exact", "exact", "fast"]), "n_samples": g.randint(1, 6),
                         "np_seed": g.randint(0, 2**31 - 1)}
        case["schedule"] = world.gen_schedule(ch.sub("sched"))
        case["faults"] = world.gen_faults(ch.sub("faults"), 0.6)
    return case


def _has_none(case):
    return any(l is None for _, us in case["continuum"]["annotators"] for _, _, l in us)


def apply_history(continuum, dissim, history, labels):
    """Operations a caller may have performed on this very object before asking for the alignment."""
    n = 0
    for op in history:
        try:
            if op[0] == "align":
                if len(continuum.annotators) >= 2 and continuum:
                    (continuum.get_best_alignment if op[1] == "best" else continuum.get_best_soft_alignment)(dissim)
                    n += 1
            else:
                annots = list(continuum.annotators)
                a = annots[op[1] % len(annots)]
                if op[0] == "remove":
                    units = list(continuum.iter_annotator(a))
                    if units and continuum.num_units > 1:
                        continuum.remove(a, units[op[2] % len(units)])
                        n += 1
                else:
                    from pyannote.core import Segment
                    continuum.add(a, Segment(op[3], op[3] + op[4]), labels[op[2] % len(labels)])
                    n += 1
        except Exception:  # noqa: BLE001 - history only; the judged call comes afterwards
            pass
    return n


def run(case):
    continuum = world.build_continuum(case["continuum"])
    dissim = world.build_dissim(case["dissim"])
    stats, violations = {}, []
    if case.get("history"):
        labels = sorted({l for _, us in case["continuum"]["annotators"] for _, _, l in us if l is not None}) or ["a"]
        stats["history_ops_applied"] = apply_history(continuum, dissim, case["history"], labels)
        stats["cases_with_history"] = 1
    cd = digest([case["continuum"], case["dissim"]])
    keys = {"cases": [cd], "nontrivial": [], "shapes": []}
    sizes = [len(u) for _, u in case["continuum"]["annotators"]]
    unl = _has_none(case)
    keys["shapes"].append(digest([len(sizes), sorted(sizes), unl, case["continuum"]["family"]]))
    stats["with_unlabelled_units"] = int(unl)
    stats["with_empty_annotator"] = int(0 in sizes)
    stats[f"annotators_{len(sizes)}"] = 1
    prod = 1
    for s_ in sizes:
        prod *= s_ + 1
    stats["max_candidate_tuples"] = prod
    if case["continuum"]["family"] == "dense":
        stats["dense_cases_buffer_growth"] = 1
    nonempty = sum(1 for s in sizes if s)
    fired = 0
    for cfg in ac.configs_for(case):
        name = ac.config_name(cfg)
        al, err, flt = ac.call_under(cfg, lambda: continuum.get_best_alignment(dissim))
        if cfg["mode"] != "none":
            stats["fault_cbc_" + cfg["mode"]] = stats.get("fault_cbc_" + cfg["mode"], 0) + flt.fired
            fired += flt.fired
        if err is not None:
            violations.append({"kind": "raises",
                               "msg": f"[{name}] get_best_alignment raised {type(err).__name__}: {str(err)[:200]}",
                               "sig": {"exc": type(err).__name__, "unlabelled": unl}})
            continue
        stats["alignments_checked"] = stats.get("alignments_checked", 0) + 1
        errs = ao.structure_errors(al, continuum)
        if errs:
            violations.append({"kind": "not_a_partition", "msg": f"[{name}] " + "; ".join(errs[:3]),
                               "sig": {"config": cfg["mode"], "unlabelled": unl}})
        if al.continuum is not continuum:
            violations.append({"kind": "wrong_continuum", "msg": f"[{name}] returned alignment is attached to another continuum",
                               "sig": {}})
    pooled_switch = False
    if "gamma" in case and not violations:
        g = case["gamma"]
        scn = {"n_samples": g["n_samples"], "precision": None, "mode": g["mode"], "gt": None}
        bad = []
        count = [0]

        def on_return(rec):
            count[0] += 1
            errs = ao.structure_errors(rec.result, rec.receiver)
            if errs:
                bad.append(f"{rec.method} (thread {rec.thread}, depth {rec.depth}): " + "; ".join(errs[:2]))

        def work():
            np.random.seed(g["np_seed"])
            sampler = world.build_sampler(g["sampler"])
            return continuum.compute_gamma(**world.gamma_kwargs(scn, dissim, sampler))

        with AlignmentMonitor(on_return=on_return, methods=("get_best_alignment", "get_fast_alignment")):
            out = common.sim_call(work, case["schedule"], faults=case.get("faults"))
        common.sim_stats(out, stats)
        stats["pooled_runs"] = 1
        stats["alignments_checked"] = stats.get("alignments_checked", 0) + count[0]
        fired += out.faults.fired
        pooled_switch = out.sched.in_job_switches > 0
        if out.error is not None:
            violations.append({"kind": "raises",
                               "msg": f"[pooled gamma, {g['mode']}] raised {type(out.error).__name__}: {str(out.error)[:200]}",
                               "sig": {"exc": type(out.error).__name__, "unlabelled": unl, "pooled": True}})
        for b in bad[:3]:
            violations.append({"kind": "not_a_partition", "msg": "[pooled] " + b, "sig": {"pooled": True, "unlabelled": unl}})
    if nonempty >= 2 and (fired or pooled_switch):
        keys["nontrivial"].append(cd)
    return {"violations": violations, "stats": stats, "keys": keys,
            "digest": digest([[v["kind"] for v in violations], stats.get("alignments_checked", 0)]),
            "sample": {"case": case}}


def shrink_candidates(case, violation):
    if case.get("history"):
        c = copy.deepcopy(case)
        c.pop("history")
        yield c
        if len(case["history"]) > 1:
            for i in range(len(case["history"])):
                c = copy.deepcopy(case)
                del c["history"][i]
                yield c
    if "gamma" in case and not violation.get("sig", {}).get("pooled"):
        c = copy.deepcopy(case)
        for k in ("gamma", "schedule", "faults"):
            c.pop(k, None)
        yield c
    yield from ac.shrink_align_case(case)
    if "gamma" in case:
        if case["gamma"]["n_samples"] > 1:
            c = copy.deepcopy(case)
            c["gamma"]["n_samples"] //= 2
            yield c
        if case.get("faults", {}).get("mode", "none") != "none":
            c = copy.deepcopy(case)
            c["faults"] = {"mode": "none", "fail": None}
            yield c
        for s in common.shrink_schedule(case["schedule"]):
            c = copy.deepcopy(case)
            c["schedule"] = s
            yield c

"""C10 - fast alignment terminates with a valid, never-better-than-optimal alignment.

Bounded liveness under a progress monitor: ``get_fast_alignment(d, w)`` runs
inside the simulator with wrappers on ``get_first_window`` (one call per
window iteration, on the shrinking working copy).  If an iteration starts with
as many units left as the previous one (no progress), or the iteration count
exceeds num_units + 1, the monitor raises ``SimStall`` (a BaseException, it
cannot be swallowed) - no wall clock involved, so the failure replays exactly.
A yield-point budget (line events inside the package) is the backstop should a
refactor bypass the wrapper.

After a normal return: partition oracle; reported disorder equals the
reference aggregation of its own units; it is >= the best alignment's disorder
(up to rounding) and equal to it when w * annotators >= units.

Fast-mode gamma in the simulated pool: when ``best_window_size`` is still inf
after ``measure_best_window_size`` every job's top-level call must be the exact
algorithm and all disorders must equal the exact-mode run with the same seed.
"""
import copy
import math

import numpy as np

from pygamma_agreement.continuum import Continuum
from refmodel import align_oracle as ao
from simkit import sched as _sched
from simkit import world
from simkit.monitor import AlignmentMonitor
from simkit.runner import digest
from . import align_common as ac
from . import common

ID = "C10"
LEVEL = "exploration"
HANG_IS_VIOLATION = True
TIERS = {
    "quick": {"runs": 1500, "wall": 70, "run_timeout": 240, "shrink_s": 40, "p_gamma": 0.15},
    "thorough": {"runs": 60000, "wall": 1100, "run_timeout": 400, "shrink_s": 120, "p_gamma": 0.2},
}
RULE = ("case = seeded continuum (2..4 annotators, <= 8 units each; overlap-heavy families nested / staircase / long-spanning plus "
        "the general ones, empty annotators) x dissimilarity x EVERY window size 1..ceil(units/annotators)+1, each call under the "
        "progress monitor; a third of the cases then edit the SAME continuum object (move a unit to another annotator / remove / add) and "
        "judge best + every window again with the same dissimilarity object; a fraction of cases additionally run fast-mode and exact-mode gamma in the simulated pool. "
        "distinct_nontrivial = distinct (continuum, dissimilarity, window) triples with >= 2 window iterations")
ASSUMPTIONS = [
    "progress = the working copy loses at least one unit per window iteration (observed at get_first_window)",
    "yield-point budget 400000 package source lines per fast call as backstop",
]
COMPONENTS = {"real": common.REAL_COMPONENTS, "stub": common.STUB_COMPONENTS}

STEP_BUDGET = 400_000


class SimStall(BaseException):
    pass


def gen(ch, tier):
    cfg = TIERS[tier]
    fams = [("nested", 3), ("staircase", 3), ("staircase_shared", 3), ("spanning", 3), ("jitter", 3), ("random", 2), ("grid", 3),
            ("sparse", 1)]
    fam_pick = ch.weighted(fams)
    if fam_pick == "spanning":
        # one annotator with long units spanning several short units of the others
        n = ch.randint(2, 4)
        names = world.ANNOTATOR_NAMES[:n]
        labels = world.LABELS_ALPHA
        ann = []
        k = ch.randint(1, 5)
        for i, nm in enumerate(names):
            units = []
            t = 0.0
            for j in range(k):
                if i == 0 or ch.coin(0.3):
                    d = ch.uniform(0.5, 1.5)
                    units.append([world.r3(t), world.r3(t + d), ch.choice(labels)])
                else:
                    units.append([world.r3(t + ch.uniform(-0.2, 0.2)), world.r3(t + ch.uniform(2.0, 4.0)), ch.choice(labels)])
                t += ch.uniform(1.5, 2.5)
            ann.append([nm, units])
        cont = {"annotators": ann, "family": "spanning", "labelset": "alpha"}
        case = {"continuum": cont, "dissim": world.gen_dissim(ch.sub("dissim"), "alpha")}
    else:
        case = ac.gen_align_case(ch, max_annot=ch.choice([2, 2, 3, 4]), max_units=ch.choice([3, 5, 8]), max_total=32,
                                 max_candidates=7000, families=[(fam_pick, 1)])
    if ch.coin(0.33):
        h = ch.sub("edits")
        # [op, annotator index, unit index, start, duration, label index]; "move" keeps the total number of units
        case["edits"] = [[h.choice(["move", "move", "remove", "add"]), h.randint(0, 4), h.randint(0, 30), world.r3(h.uniform(0, 25)),
                          world.r3(h.uniform(0.5, 4)), h.randint(0, 30), h.randint(1, 4)] for _ in range(h.randint(1, 2))]
    if ch.coin(cfg["p_gamma"]):
        g = ch.sub("gamma")
        case["gamma"] = {"sampler": g.choice(["stat", "shuffle_int", "shuffle_float"]), "n_samples": g.randint(1, 5),
                         "np_seed": g.randint(0, 2**31 - 1)}
        case["schedule"] = world.gen_schedule(ch.sub("sched"))
    return case


def apply_edits(continuum, edits, labels):
    """Operations a caller may perform on this very object between two alignment requests."""
    from pyannote.core import Segment
    n = 0
    for op, ai, ui, start, dur, li, shift in edits:
        annots = list(continuum.annotators)
        a = annots[ai % len(annots)]
        units = list(continuum.iter_annotator(a))
        if op in ("move", "remove"):
            if not units or continuum.num_units <= 2:
                continue
            u = units[ui % len(units)]
            continuum.remove(a, u)
            n += 1
            if op == "move":   # the same unit handed to another annotator: total unit count unchanged
                b = annots[(ai + shift) % len(annots)]
                continuum.add(b, u.segment, u.annotation)
        else:
            continuum.add(a, Segment(start, start + dur), labels[li % len(labels)])
            n += 1
    return n


def monitored_fast(continuum, dissim, w):
    """Returns (alignment|None, outcome, iterations).  outcome in
    'ok' | 'stall' | 'step_budget' | ('raises', exc)"""
    state = {"prev": None, "iters": 0, "limit": continuum.num_units + 1}
    orig = Continuum.get_first_window

    def first_window(self_, *a, **k):
        n = self_.num_units
        state["iters"] += 1
        if state["prev"] is not None and n >= state["prev"]:
            raise SimStall(f"window iteration {state['iters']} starts with {n} units left, the previous one with "
                           f"{state['prev']}: no unit was retired")
        if state["iters"] > state["limit"]:
            raise SimStall(f"more than num_units+1 = {state['limit']} window iterations")
        state["prev"] = n
        return orig(self_, *a, **k)

    Continuum.get_first_window = first_window
    try:
        try:
            out = common.sim_call(lambda: continuum.get_fast_alignment(dissim, w),
                                  {"workers": 1, "policy": {"policy": "seq"}, "trace_lines": True}, max_steps=STEP_BUDGET,
                                  retry_coarse=False)
        except _sched.StepBudget:
            return None, "step_budget", state["iters"], None
    finally:
        Continuum.get_first_window = orig
    if isinstance(out.error, SimStall):
        return None, "stall", state["iters"], str(out.error)
    if out.error is not None:
        return None, ("raises", out.error), state["iters"], None
    return out.value, "ok", state["iters"], out.sched.step


def run(case):
    continuum = world.build_continuum(case["continuum"])
    dissim = world.build_dissim(case["dissim"])
    stats, violations = {}, []
    cd = digest([case["continuum"], case["dissim"]])
    keys = {"cases": [cd], "nontrivial": []}
    results, results_round0 = {}, None
    # round 0: the continuum as generated.  round 1 (history, a third of the cases): the SAME continuum and dissimilarity
    # objects after the caller moved / removed / added units - anything either object memoised in round 0 must follow
    for rnd in range(2 if case.get("edits") else 1):
        if rnd:
            if violations:
                break
            stats["edit_ops_applied"] = apply_edits(continuum, case["edits"], world.LABEL_SETS[case["continuum"].get("labelset", "alpha")])
            stats["cases_with_history"] = 1
            results_round0, results = results, {}
        n_annot = continuum.num_annotators
        n_units = continuum.num_units
        windows = (case.get("windows") if not rnd else None) or list(range(1, math.ceil(n_units / n_annot) + 2))
        before = world.continuum_key(continuum)
        try:
            best = continuum.get_best_alignment(dissim)
            best_d = float(best.disorder)
        except Exception as e:  # noqa: BLE001  (C01's business; cannot judge C10 here)
            if rnd:
                stats["skipped_best_raises_after_edit"] = 1
                break
            return {"violations": [], "stats": {"skipped_best_raises": 1}, "keys": keys, "digest": digest("skip")}
        pc = ao.PairCosts(continuum, dissim)
        for w in windows:
            al, outcome, iters, info = monitored_fast(continuum, dissim, w)
            stats["fast_calls"] = stats.get("fast_calls", 0) + 1
            stats["window_iterations"] = stats.get("window_iterations", 0) + iters
            stats["max_window_iterations"] = max(stats.get("max_window_iterations", 0), iters)
            if outcome == "stall":
                violations.append({"kind": "no_progress", "msg": f"get_fast_alignment(window_size={w}) does not terminate: {info}",
                                   "sig": {"liveness": True}, "window": w, "round": rnd})
                continue
            if outcome == "step_budget":
                violations.append({"kind": "no_progress",
                                   "msg": f"get_fast_alignment(window_size={w}) exceeded {STEP_BUDGET} package source lines",
                                   "sig": {"liveness": True}, "window": w, "round": rnd})
                continue
            if outcome != "ok":
                err = outcome[1]
                violations.append({"kind": "raises", "msg": f"get_fast_alignment(window_size={w}) raised {type(err).__name__}: {err}",
                                   "sig": {"exc": type(err).__name__}, "window": w, "round": rnd})
                continue
            stats["steps"] = stats.get("steps", 0) + (info or 0)
            if iters >= 2:
                keys["nontrivial"].append(digest([cd, w]))
            errs = ao.structure_errors(al, continuum)
            if errs:
                violations.append({"kind": "not_a_partition", "msg": f"window_size={w}: " + "; ".join(errs[:3]), "sig": {}, "window": w, "round": rnd})
                continue
            d = float(al.disorder)
            results[w] = d
            rec = ao.alignment_disorder_from_units(pc, al)
            if not ao.close(d, rec):
                violations.append({"kind": "disorder_mismatch",
                                   "msg": f"window_size={w}: reported disorder {d!r}, its own units give {rec!r}", "sig": {}, "window": w, "round": rnd})
            if d < best_d and not ao.close(d, best_d):
                violations.append({"kind": "better_than_optimal",
                                   "msg": f"window_size={w}: fast disorder {d!r} is below the best alignment's {best_d!r}",
                                   "sig": {}, "window": w, "round": rnd})
            if w * n_annot >= n_units:
                stats["whole_continuum_windows"] = stats.get("whole_continuum_windows", 0) + 1
                if not ao.close(d, best_d):
                    violations.append({"kind": "whole_window_differs",
                                       "msg": f"window_size={w} covers the whole continuum ({n_units} units, {n_annot} annotators) "
                                              f"but fast disorder {d!r} != best {best_d!r}", "sig": {}, "window": w, "round": rnd})
            elif not ao.close(d, best_d):
                stats["fast_worse_than_best"] = stats.get("fast_worse_than_best", 0) + 1
        if world.continuum_key(continuum) != before:
            violations.append({"kind": "input_modified", "msg": "get_fast_alignment changed the continuum it was called on", "sig": {}})

    # ---- fast-mode gamma in the simulated pool ---------------------------------
    if "gamma" in case and not violations:
        g = case["gamma"]
        c2 = world.build_continuum(case["continuum"])   # fresh: best_window_size == inf

        def gamma_run(fast):
            scn = {"n_samples": g["n_samples"], "precision": None, "mode": "fast" if fast else "exact", "gt": None}

            def work():
                np.random.seed(g["np_seed"])
                res = c2.compute_gamma(**world.gamma_kwargs(scn, dissim, world.build_sampler(g["sampler"])))
                return [float(res.observed_disorder)] + [float(a.disorder) for a in res.chance_alignments]
            mon = AlignmentMonitor(methods=("get_best_alignment", "get_fast_alignment"))
            with mon:
                out = common.sim_call(work, case["schedule"])
            return out, mon

        out_f, mon_f = gamma_run(True)
        common.sim_stats(out_f, stats)
        stats["gamma_fast_runs"] = 1
        bws = c2.best_window_size
        if out_f.error is not None:
            if isinstance(out_f.error, SimStall):
                pass
            violations.append({"kind": "raises", "msg": f"fast-mode gamma raised {type(out_f.error).__name__}: {out_f.error}",
                               "sig": {"exc": type(out_f.error).__name__, "pooled": True}})
        elif bws == np.inf:
            stats["gamma_fast_disadvantageous"] = 1
            job_calls = [c for c in mon_f.calls if c.depth == 0 and c.thread != 0]
            wrong = [c for c in job_calls if c.method != "get_best_alignment"]
            if wrong:
                violations.append({"kind": "fast_used_when_disadvantageous",
                                   "msg": f"best_window_size is inf after measuring, yet {len(wrong)} of {len(job_calls)} jobs "
                                          f"ran get_fast_alignment", "sig": {"pooled": True}})
            c2.best_window_size = np.inf
            out_e, _ = gamma_run(False)
            common.sim_stats(out_e, stats)
            if out_e.error is None and (len(out_e.value) != len(out_f.value)
                                        or any(not ao.close(a, b) for a, b in zip(out_e.value, out_f.value))):
                violations.append({"kind": "fast_differs_from_exact",
                                   "msg": "windowing judged disadvantageous, but fast-mode gamma disorders differ from exact-mode "
                                          f"ones for the same seed: {out_f.value} vs {out_e.value}", "sig": {"pooled": True}})
        else:
            stats["gamma_fast_windowed"] = 1
    return {"violations": violations, "stats": stats, "keys": keys,
            "digest": digest([results_round0, results, best_d, [v["kind"] for v in violations]]),
            "sample": {"case": case, "best_disorder": best_d, "fast_disorder_by_window": results,
                       "fast_disorder_by_window_before_edits": results_round0}}


def shrink_candidates(case, violation):
    if "gamma" in case and not violation.get("sig", {}).get("pooled"):
        c = copy.deepcopy(case)
        for k in ("gamma", "schedule"):
            c.pop(k, None)
        yield c
    if case.get("edits"):
        c = copy.deepcopy(case)
        c.pop("edits")
        yield c
        if len(case["edits"]) > 1:
            for i in range(len(case["edits"])):
                c = copy.deepcopy(case)
                del c["edits"][i]
                yield c
    if violation.get("window") is not None and case.get("windows") != [violation["window"]]:
        c = copy.deepcopy(case)
        c["windows"] = [violation["window"]]
        yield c
    yield from ac.shrink_align_case(case)
    if "gamma" in case:
        for s in common.shrink_schedule(case["schedule"]):
            c = copy.deepcopy(case)
            c["schedule"] = s
            yield c

"""Helpers shared by the per-property checks."""
import copy
import os
import sys

import numpy as np

from simkit import world
from simkit.env import run_sim
from simkit.runner import digest
from simkit.solverfault import SolverFaults

STUB_COMPONENTS = [
    "ThreadPoolExecutor (replaced by simkit.executor.SimExecutor: real threads, seeded baton scheduler)",
    "os.cpu_count (worker count chosen per run)",
    "numpy.random module functions (wrapped: logged / yield point / optional legal-extreme injection)",
    "cylp importability and cvxpy.Problem.solve(solver=CBC) success (fault injection only)",
]
REAL_COMPONENTS = [
    "pygamma_agreement (all modules, from /repo working tree)", "numba kernels", "cvxpy", "CBC (cylp)", "GLPK_MI (cvxopt)",
    "sortedcontainers", "pyannote.core", "numpy RandomState (global, seeded per scenario)",
]


def fval(x):
    """bit-exact, JSON-able rendering of a numeric result"""
    if x is None:
        return None
    try:
        return float(x).hex()
    except Exception:
        return repr(x)


SORTEDCONTAINERS_DIR = os.path.dirname(os.path.abspath(__import__("sortedcontainers").__file__)) + os.sep


STEP_BUDGET_FALLBACKS = [0]


def sim_call(fn, schedule, faults=None, rng_injector=None, max_steps=4_000_000, watcher=None, retry_coarse=True):
    """Run fn under the simulator.  If the fine-grained (line / bytecode) run exceeds its yield-point budget
    - a legitimately huge computation, e.g. a soft alignment made of thousands of zero-cost unitary
    alignments - the call is repeated with coarse yield points only (submit / job start / job end / waits /
    RNG calls), which is deterministic as well; a budget overrun in the coarse run is a harness error."""
    from simkit import sched as _sched
    # swarm knob: also pre-empt between the source lines of sortedcontainers (the containers jobs share)
    extra = (SORTEDCONTAINERS_DIR,) if schedule.get("trace_sortedcontainers") else ()

    def once(trace_lines, budget):
        flt = SolverFaults(faults["mode"], faults.get("fail")) if faults else None
        return run_sim(fn, policy=schedule["policy"], workers=schedule["workers"], trace_lines=trace_lines, faults=flt,
                       rng_injector=rng_injector, max_steps=budget, extra_prefixes=extra if trace_lines else (),
                       watcher=watcher, trace_opcodes=bool(schedule.get("trace_opcodes")) and trace_lines)
    fine = schedule.get("trace_lines", True)
    try:
        return once(fine, max_steps * (8 if schedule.get("trace_opcodes") else 1))
    except _sched.StepBudget:
        if not (fine and retry_coarse):
            raise
        STEP_BUDGET_FALLBACKS[0] += 1
        return once(False, max_steps)


def sched_digest(out):
    return digest(out.sched.schedule_digest_material())


def fault_stats(out, stats):
    f = out.faults
    if f is None:
        return
    if f.mode == "import_error":
        stats["fault_cbc_import_error"] = stats.get("fault_cbc_import_error", 0) + f.fired
    elif f.mode == "solver_error":
        stats["fault_cbc_solver_error"] = stats.get("fault_cbc_solver_error", 0) + f.fired
    stats["solves_cbc"] = stats.get("solves_cbc", 0) + f.cbc_calls - f.injected
    stats["solves_glpk"] = stats.get("solves_glpk", 0) + f.glpk_calls


def sim_stats(out, stats):
    s = out.sched
    if STEP_BUDGET_FALLBACKS[0]:
        stats["step_budget_coarse_fallbacks"] = stats.get("step_budget_coarse_fallbacks", 0) + STEP_BUDGET_FALLBACKS[0]
        STEP_BUDGET_FALLBACKS[0] = 0
    stats["steps"] = stats.get("steps", 0) + s.step
    stats["switches"] = stats.get("switches", 0) + len(s.switch_log)
    stats["line_switches"] = stats.get("line_switches", 0) + s.in_job_switches
    stats["sim_threads"] = stats.get("sim_threads", 0) + len(s.threads)
    stats["jobs"] = stats.get("jobs", 0) + out.exec_stats.jobs
    stats["max_threads"] = max(stats.get("max_threads", 0), len(s.threads))
    if out.exec_stats.pools:
        # scheduling "faults" that actually happened in this execution (measured, not configured)
        stats["fault_worker_count"] = stats.get("fault_worker_count", 0) + 1
        if out.exec_stats.reordered():
            stats["fault_reorder"] = stats.get("fault_reorder", 0) + 1
        if out.exec_stats.stalled():
            stats["fault_worker_stall"] = stats.get("fault_worker_stall", 0) + 1
    stats["rng_calls"] = stats.get("rng_calls", 0) + out.rng.calls
    worker_draws = sum(v for t, v in out.rng.by_thread.items() if t != 0)
    stats["rng_calls_in_workers"] = stats.get("rng_calls_in_workers", 0) + worker_draws
    fault_stats(out, stats)


# -- structural shrinking -----------------------------------------------------
def shrink_continuum(spec, min_annot=2):
    """Yield simpler continuum specs."""
    ann = spec["annotators"]
    if len(ann) > min_annot:
        for i in range(len(ann)):
            s = copy.deepcopy(spec)
            del s["annotators"][i]
            yield s
    for i, (_, units) in enumerate(ann):
        if len(units) > 1:
            half = copy.deepcopy(spec)
            half["annotators"][i][1] = units[: len(units) // 2]
            yield half
        for j in range(len(units)):
            s = copy.deepcopy(spec)
            del s["annotators"][i][1][j]
            if sum(len(u) for _, u in s["annotators"]) >= 1:
                yield s
    for i, (_, units) in enumerate(ann):
        for j, (st, en, lab) in enumerate(units):
            rs, re_ = float(round(st)), float(round(en))
            if (rs, re_) != (st, en) and re_ > rs:
                s = copy.deepcopy(spec)
                s["annotators"][i][1][j] = [rs, re_, lab]
                yield s


def shrink_explicit(switches):
    """ddmin-style: remove chunks of switches."""
    n = len(switches)
    if n == 0:
        return
    yield []
    chunk = n // 2
    while chunk >= 1:
        for i in range(0, n, chunk):
            cand = switches[:i] + switches[i + chunk:]
            if len(cand) < n:
                yield cand
        chunk //= 2


def shrink_schedule(sched):
    if sched["workers"] > 1:
        for w in sorted({1, 2, sched["workers"] // 2}):
            if w < sched["workers"]:
                s = copy.deepcopy(sched)
                s["workers"] = w
                yield s
    if sched["policy"].get("policy") == "explicit":
        for sw in shrink_explicit(sched["policy"]["switches"]):
            s = copy.deepcopy(sched)
            s["policy"] = {"policy": "explicit", "switches": sw}
            yield s
    if sched.get("trace_lines", True) and sched["policy"].get("policy") != "explicit":
        s = copy.deepcopy(sched)
        s["trace_lines"] = False
        yield s


def shrink_gamma_scenario(scn):
    for c in shrink_continuum(scn["continuum"]):
        s = copy.deepcopy(scn)
        s["continuum"] = c
        names = [n for n, _ in c["annotators"]]
        if s.get("gt") is not None:
            s["gt"] = [g for g in s["gt"] if g in names]
            if len(s["gt"]) < 2:
                s["gt"] = None
        yield s
    if scn["n_samples"] > 1:
        for k in sorted({1, scn["n_samples"] // 2, scn["n_samples"] - 1}):
            if 1 <= k < scn["n_samples"]:
                s = copy.deepcopy(scn)
                s["n_samples"] = k
                yield s
    if scn.get("precision") is not None:
        s = copy.deepcopy(scn)
        s["precision"] = None
        yield s
    if scn.get("gt") is not None:
        s = copy.deepcopy(scn)
        s["gt"] = None
        yield s
    if scn["mode"] != "exact":
        s = copy.deepcopy(scn)
        s["mode"] = "exact"
        yield s
    if scn["dissim"]["kind"] != "pos":
        s = copy.deepcopy(scn)
        s["dissim"] = {"kind": "pos", "delta_empty": 1.0}
        yield s

"""Child of the C06 check: recompute canonical digests of run seeds under this
interpreter's PYTHONHASHSEED and print them as one JSON line."""
import json
import logging
import os
import sys
import warnings


def main():
    verif_seed, tier, n = int(sys.argv[1]), sys.argv[2], int(sys.argv[3])
    warnings.filterwarnings("ignore")
    logging.disable(logging.WARNING)
    # keep solver chatter away from our single output line
    real_out = os.dup(1)
    devnull = os.open(os.devnull, os.O_WRONLY)
    os.dup2(devnull, 1)
    sys.path.insert(0, os.environ.get("VERIF_REPO", "/repo"))   # same tree as the parent check
    from simkit.choices import Choices, mix
    from simkit.runner import digest
    from checks import c06
    out = {}
    for idx in range(n):
        case = c06.gen(Choices(mix(verif_seed, f"C06:{idx}")), tier)
        out[str(idx)] = digest(c06.canonical(case["scenario"], case.get("with_cat", True)))
    os.dup2(real_out, 1)
    sys.stdout.write("HASHPROBE " + json.dumps({"hashseed": os.environ.get("PYTHONHASHSEED"), "digests": out}) + "\n")
    sys.stdout.flush()


if __name__ == "__main__":
    main()

"""C15 - statistical sampler emits valid continua with the reference's statistics.

RNG-seam simulation.

Validity is judged on EVERY draw; every other draw runs with an adversary at
the ``numpy.random`` seam that returns legal extremes (mu +- k*sigma, unit
counts landing on 0, sub-precision durations forcing the redraw loop,
negative gaps, first / last category): each sample must be non-empty, have
exactly the ground-truth annotators, only segments longer than the segment
precision and only labels of the reference (or of the supplied list).
Ground-truth subsets and custom parameter sets (weights given / None) are
chosen per run, including harsh regimes (mean count < 1, durations around the
precision, negative mean gap).

Laws are judged over many seeded REAL draws (adversary off) in regimes where
the generation order is recoverable from the sorted output: per-annotator
counts, gaps (incl. the first gap from 0), durations and category
frequencies are compared with refmodel.sampler_laws by z-tests (|z| <= 7)
with an explicit discretisation band for the count.  With supplied
parameters the target is exact; with parameters measured on a reference the
target is a band spanning the plain estimators and the library's variant, so
an estimator quirk is not pinned while 'uniform instead of weighted
categories' or 'gaps drawn from the duration law' are rejected.
"""
import copy
import math

import numpy as np
import pyannote.core.segment

import pygamma_agreement as pa
from refmodel import sampler_laws as sl
from simkit import world
from simkit.adversary import Adversary
from simkit.choices import Choices
from simkit.rngseam import RngSeam
from simkit.runner import digest

ID = "C15"
LEVEL = "exploration"
TIERS = {
    "quick": {"runs": 4000, "wall": 60, "run_timeout": 240, "shrink_s": 40, "valid_draws": 40, "law_draws": 150},
    "thorough": {"runs": 110000, "wall": 1000, "run_timeout": 400, "shrink_s": 120, "valid_draws": 60, "law_draws": 400},
}
RULE = ("case = seeded regime: custom parameters (2..4 annotators, counts, gaps, durations, 2..4 categories with weights or None; "
        "incl. harsh ones) or parameters measured on a generated regular reference continuum with a ground-truth subset; "
        "valid_draws draws (alternating real / adversarial legal extremes) judged for validity, law_draws real draws judged "
        "against the laws when the regime is order-recoverable. distinct_nontrivial = distinct regimes whose laws were judged on "
        ">= 500 generated units, or in which an adversarial draw hit the zero-count or redraw branch")
ASSUMPTIONS = [
    "z-tests with |z| <= 7; standard deviations within 7/sqrt(2N) relative; count mean within [mu-1, mu+0.5] (truncation vs rounding)",
    "laws are only judged in regimes with (mu_gap + mu_dur) >= 6*sqrt(s_gap^2 + s_dur^2), mu_dur >= 6 s_dur, mu_n >= 3 s_n + 1",
    "measured regimes: target band spans plain estimators and the library's variant",
]
COMPONENTS = {"real": ["pygamma_agreement.sampler.StatisticalContinuumSampler", "Continuum", "numpy RandomState (record mode)"],
              "stub": ["numpy.random.normal / choice return values in adversarial draws (legal extremes)"]}
PREC = pyannote.core.segment.SEGMENT_PRECISION


def gen(ch, tier):
    cfg = TIERS[tier]
    kind = ch.weighted([("custom_lawful", 4), ("custom_harsh", 3), ("measured", 4)])
    n_annot = ch.randint(2, 4)
    names = world.ANNOTATOR_NAMES[:n_annot]
    ncat = ch.randint(2, 4)
    cats = world.LABELS_WORDS[:ncat]
    case = {"kind": kind, "annotators": names, "valid_draws": cfg["valid_draws"], "law_draws": cfg["law_draws"],
            "np_seed": ch.randint(0, 2**31 - 1), "adv_seed": ch.randint(0, 2**31 - 1), "adv_rate": ch.choice([0.1, 0.3, 0.5])}
    if kind == "custom_lawful":
        s_n = ch.choice([0.0, 0.5, 1.0, 2.0])
        mu_n = ch.uniform(3 * s_n + 1.5, 3 * s_n + 10)
        mu_d = ch.uniform(1.0, 8.0)
        s_d = ch.choice([0.0, mu_d / 20, mu_d / 8])
        mu_g = ch.uniform(-0.3 * mu_d, 3 * mu_d)
        s_g_max = max(0.0, math.sqrt(max(0.0, ((mu_g + mu_d) / 8) ** 2 - s_d ** 2)))
        s_g = ch.choice([0.0, s_g_max * 0.5, s_g_max])
        w = None
        if ch.coin(0.7):
            raw = [ch.uniform(0.2, 3.0) for _ in range(ncat)]
            w = [x / sum(raw) for x in raw]
            w[-1] = 1.0 - sum(w[:-1])
        case["params"] = {"avg_n": mu_n, "std_n": s_n, "avg_gap": mu_g, "std_gap": s_g, "avg_dur": mu_d, "std_dur": s_d,
                          "categories": cats, "weights": w}
    elif kind == "custom_harsh":
        w = None
        if ch.coin(0.5):
            raw = [ch.choice([0.0, 0.0, 1.0, 3.0]) for _ in range(ncat)]
            if sum(raw) == 0:
                raw[0] = 1.0
            w = [x / sum(raw) for x in raw]
        case["params"] = {"avg_n": ch.choice([0.0, 0.4, 1.0, 2.0]), "std_n": ch.choice([0.0, 1.0, 3.0]),
                          "avg_gap": ch.choice([-5.0, -0.5, 0.0, 1.0]), "std_gap": ch.choice([0.0, 1.0, 10.0]),
                          # (never a law whose mass sits exactly on the segment precision: no valid output exists there)
                          "avg_dur": ch.choice([1.37e-6, 2.3e-6, 0.001, 1.0]), "std_dur": ch.choice([0.0, 0.9e-6, 1.0, 5.0]),
                          "categories": cats, "weights": w}
    else:
        # regular reference continuum
        ann = []
        dur = ch.uniform(1.0, 6.0)
        # a third of the references have consecutive units of one annotator overlapping (negative gaps)
        gap = ch.uniform(2.0, 8.0) if ch.coin(0.65) else ch.uniform(-0.35, 0.3) * dur
        raw = [ch.uniform(0.3, 3.0) for _ in range(ncat)]
        for nm in names:
            t = 0.0
            units = []
            for _ in range(ch.randint(5, 10)):
                t += ch.uniform(gap - 0.1 * abs(gap) - 0.05 * dur, gap + 0.1 * abs(gap) + 0.05 * dur)
                d = ch.uniform(dur * 0.9, dur * 1.1)
                units.append([world.r3(t), world.r3(t + d), ch.weighted(list(zip(cats, raw)))])
                t = units[-1][1]
            ann.append([nm, units])
        case["reference"] = {"annotators": ann, "family": "regular", "labelset": "words"}
        case["gt"] = sorted(ch.sample(names, ch.randint(2, n_annot))) if n_annot >= 3 and ch.coin(0.5) else None
    if ch.coin(0.3):
        pc = ch.sub("prior")
        if pc.coin(0.5):
            case["prior"] = {"kind": "custom", "annotators": ["Pia", "Quin", "Rolf"],
                             "params": {"avg_n": pc.uniform(2, 20), "std_n": pc.uniform(0, 3), "avg_gap": pc.uniform(20, 60),
                                        "std_gap": pc.uniform(0, 5), "avg_dur": pc.uniform(10, 50), "std_dur": pc.uniform(0, 5),
                                        "categories": ["x", "y"], "weights": [0.9, 0.1]}}
        else:
            case["prior"] = {"kind": "measured",
                             "reference": world.gen_continuum(pc, max_annot=3, max_units=6, labelset="alpha",
                                                              allow_empty_annot=False, min_total_units=2)}
    return case


def build_sampler(case):
    s = pa.StatisticalContinuumSampler()
    if case.get("prior"):
        # history: the same sampler object served another parameter set / reference before
        pr = case["prior"]
        np.random.seed(case["np_seed"] ^ 0x5A5A)
        if pr["kind"] == "custom":
            p = pr["params"]
            s.init_sampling_custom(pr["annotators"], p["avg_n"], p["std_n"], p["avg_gap"], p["std_gap"], p["avg_dur"],
                                   p["std_dur"], p["categories"], p["weights"])
        else:
            s.init_sampling(world.build_continuum(pr["reference"]))
        for _ in range(2):
            try:
                s.sample_from_continuum
            except Exception:  # noqa: BLE001
                pass
    if case["kind"] == "measured":
        ref = world.build_continuum(case["reference"])
        s.init_sampling(ref, case.get("gt"))
        return s, ref, (case.get("gt") or list(ref.annotators)), set(ref.categories)
    p = case["params"]
    s.init_sampling_custom(case["annotators"], p["avg_n"], p["std_n"], p["avg_gap"], p["std_gap"], p["avg_dur"], p["std_dur"],
                           p["categories"], p["weights"])
    return s, None, list(case["annotators"]), set(p["categories"])


def validity_errors(sample, gt, cats):
    errs = []
    if not sample:
        errs.append("empty sample")
    if list(sample.annotators) != sorted(gt):
        errs.append(f"annotators {list(sample.annotators)}, ground truth {sorted(gt)}")
    for a, u in sample:
        if not (u.segment.end - u.segment.start > PREC) or not u.segment:
            errs.append(f"segment [{u.segment.start!r}, {u.segment.end!r}] not longer than the precision {PREC}")
            break
        if u.annotation not in cats:
            errs.append(f"label {u.annotation!r} not among {sorted(cats)}")
            break
    return errs


def landings(args, kwargs):
    return [0.3, -0.4, 0.99, PREC * 0.5, -PREC * 0.5, PREC * 1.5, -PREC * 1.5]


def run(case):
    stats, violations = {"draws": 0}, []
    sampler, ref, gt, cats = build_sampler(case)
    adv = Adversary(Choices(case["adv_seed"]), case["adv_rate"], landings={"normal": landings})
    np.random.seed(case["np_seed"])
    hit_rare = False
    # ---- validity on every draw ---------------------------------------------------------
    for i in range(case["valid_draws"]):
        adversarial = i % 2 == 1
        seam = RngSeam(injector=adv if adversarial else None, keep_log=False)
        with seam:
            try:
                sample = sampler.sample_from_continuum
            except Exception as e:  # noqa: BLE001
                violations.append({"kind": "raises", "msg": f"draw #{i} ({'adversarial' if adversarial else 'real'}) raised "
                                                          f"{type(e).__name__}: {e}",
                                   "sig": {"exc": type(e).__name__, "adversarial": adversarial}})
                break
        stats["draws"] += 1
        stats["rng_calls"] = stats.get("rng_calls", 0) + seam.calls
        n_units = sample.num_units
        normal_calls = seam.by_func.get("normal", 0)
        if normal_calls > len(gt) + 2 * n_units:
            stats["redraw_loop_taken"] = stats.get("redraw_loop_taken", 0) + 1
            hit_rare = hit_rare or adversarial
        if any(len(sample._annotations[a]) == 0 for a in sample.annotators):
            stats["zero_count_annotator"] = stats.get("zero_count_annotator", 0) + 1
            hit_rare = hit_rare or adversarial
        if adversarial:
            stats["fault_rng_extreme"] = stats.get("fault_rng_extreme", 0) + sum(seam.injected.values())
        errs = validity_errors(sample, gt, cats)
        if errs:
            violations.append({"kind": "invalid_sample",
                               "msg": f"draw #{i} ({'adversarial' if adversarial else 'real'}): " + "; ".join(errs),
                               "sig": {"adversarial": adversarial, "what": errs[0].split(" ")[0]}})
            break
    # ---- laws over real draws ---------------------------------------------------------------
    judged_units = 0
    if not violations and case["kind"] != "custom_harsh":
        target = sl.targets_custom(case["params"]) if case["kind"] == "custom_lawful" else sl.targets_measured(ref, sampler)
        if sl.recoverable(target):
            obs = sl.Observations(sorted(gt))
            for i in range(case["law_draws"]):
                sample = sampler.sample_from_continuum
                errs = validity_errors(sample, gt, cats)
                if errs:
                    violations.append({"kind": "invalid_sample", "msg": f"law draw #{i}: " + "; ".join(errs),
                                       "sig": {"adversarial": False, "what": errs[0].split(" ")[0]}})
                    break
                obs.add(sample)
            stats["draws"] += case["law_draws"]
            judged_units = obs.n_units
            stats["law_units"] = judged_units
            if not violations:
                stats["law_regimes"] = 1
                for name, msg in sl.judge(obs, target):
                    violations.append({"kind": "law_" + name, "msg": msg, "sig": {"law": name, "regime": case["kind"]}})
        else:
            stats["law_regime_not_recoverable"] = 1
    cd = digest({k: v for k, v in case.items() if k not in ("np_seed", "adv_seed")})
    keys = {"regimes": [cd], "nontrivial": [cd] if (judged_units >= 500 or hit_rare) else []}
    return {"violations": violations, "stats": stats, "keys": keys,
            "digest": digest([stats["draws"], judged_units, [v["kind"] for v in violations]]),
            "sample": {"case": {k: v for k, v in case.items() if k != "reference"} | ({"reference_units": world.continuum_units(case["reference"])} if "reference" in case else {})}}


def shrink_candidates(case, violation):
    if case["valid_draws"] > 2 and not violation["kind"].startswith("law_"):
        c = copy.deepcopy(case)
        c["valid_draws"] = max(2, case["valid_draws"] // 2)
        yield c
    if case["adv_rate"] > 0 and not violation.get("sig", {}).get("adversarial"):
        c = copy.deepcopy(case)
        c["adv_rate"] = 0.0
        yield c
    if case.get("prior"):
        c = copy.deepcopy(case)
        c["prior"] = None
        yield c
    if len(case["annotators"]) > 2 and case["kind"] != "measured":
        c = copy.deepcopy(case)
        c["annotators"] = case["annotators"][:-1]
        yield c
    if case["kind"] != "measured":
        for k, v in (("std_n", 0.0), ("std_gap", 0.0), ("std_dur", 0.0), ("weights", None)):
            if case["params"].get(k) != v:
                c = copy.deepcopy(case)
                c["params"][k] = v
                yield c

"""C11 - soft alignment is a minimum-disorder cover.

Refinement against an executable reference model: for each seeded continuum
and dissimilarity the library's soft alignment is computed under the three
MIP back-end configurations reachable through fault injection

    none          -> CBC
    import_error  -> ``import cylp`` raises      -> GLPK_MI
    solver_error  -> every CBC solve raises      -> GLPK_MI

and must (1) contain every unit at least once, (2) consist only of well-formed
unitary alignments over the continuum's own units, (3) have a disorder equal
to the exact minimum over ALL (unpruned) covers computed by
refmodel.align_oracle (bitmask DP, or an independent HiGHS MILP for medium
sizes), and (4) never exceed the best (partition) alignment's disorder under
the same configuration.  Schedule search is not relevant for this property;
the simulator contributes the back-end fault dimension.
"""
from refmodel import align_oracle as ao
from simkit import world
from simkit.runner import digest
from . import align_common as ac
from . import common

ID = "C11"
LEVEL = "exploration"
TIERS = {
    "quick": {"runs": 2500, "wall": 70, "run_timeout": 240, "shrink_s": 40},
    "thorough": {"runs": 120000, "wall": 1100, "run_timeout": 400, "shrink_s": 120},
}
RULE = ("case = seeded continuum (2..5 annotators, grid/jitter/nested/staircase/identical/sparse families incl. empty annotators, "
        "exact ties) x dissimilarity (positional; combined with absolute/levenshtein/ordinal/numerical, alpha,beta in {0,.5,1,3}, "
        "delta_empty in {.5,1,1.5,2}); soft alignment under 3 solver-fault configurations vs exact minimum cover over the unpruned "
        "candidate set (DP <= 9 units, HiGHS MILP <= 3000 candidates). distinct_nontrivial = distinct (continuum, dissimilarity) "
        "cases with >= 2 units on >= 2 annotators for which a GLPK fallback actually fired")
ASSUMPTIONS = [
    "pair costs are taken from the dissimilarity's own compiled kernel (C04 is out of scope for this technique)",
    "oracle sizes bounded: cover DP <= 9 units, MILP <= 3000 candidate unitary alignments",
]
COMPONENTS = {"real": common.REAL_COMPONENTS + ["scipy.optimize.milp (HiGHS) - oracle only"],
              "stub": ["cylp importability / CBC solve success (fault injection)"]}


def gen(ch, tier):
    big = ch.coin(0.35)
    if big:
        return ac.gen_align_case(ch, max_annot=ch.choice([2, 3, 3, 4, 5]), max_units=ch.choice([3, 5, 9]),
                                 max_total=40, max_candidates=3000)
    return ac.gen_align_case(ch, max_annot=ch.choice([2, 3, 4, 5]), max_units=4, max_total=12, max_candidates=3000)


def run(case):
    continuum = world.build_continuum(case["continuum"])
    dissim = world.build_dissim(case["dissim"])
    pc = ao.PairCosts(continuum, dissim)
    opt, method = ao.optimum(pc, cover=True)
    stats = {"oracle_" + method: 1}
    violations = []
    fired = 0
    vals = {}
    for cfg in ac.configs_for(case):
        name = ac.config_name(cfg)
        al, err, flt = ac.call_under(cfg, lambda: continuum.get_best_soft_alignment(dissim))
        if cfg["mode"] != "none":
            fired += flt.fired
            stats["fault_cbc_" + cfg["mode"]] = stats.get("fault_cbc_" + cfg["mode"], 0) + flt.fired
        if err is not None:
            violations.append({"kind": "raises", "msg": f"[{name}] get_best_soft_alignment raised {type(err).__name__}: {err}",
                               "sig": {"exc": type(err).__name__, "config": cfg["mode"]}})
            continue
        errs = ao.structure_errors(al, continuum, cover=True)
        if errs:
            violations.append({"kind": "not_a_cover", "msg": f"[{name}] " + "; ".join(errs[:3]),
                               "sig": {"config": cfg["mode"]}})
            continue
        lib = float(al.disorder)
        vals[name] = lib
        recomputed = ao.alignment_disorder_from_units(pc, al)
        if not ao.close(lib, recomputed):
            violations.append({"kind": "disorder_mismatch",
                               "msg": f"[{name}] reported disorder {lib!r} but its own units give {recomputed!r}",
                               "sig": {"config": cfg["mode"]}})
        if lib > opt and not ao.close(lib, opt):
            violations.append({"kind": "not_minimal",
                               "msg": f"[{name}] soft alignment disorder {lib!r} exceeds the exact minimum {opt!r} ({method}) "
                                      f"over all covers",
                               "sig": {"config": cfg["mode"]}})
        best, berr, _ = ac.call_under(cfg, lambda: continuum.get_best_alignment(dissim))
        if berr is None and float(best.disorder) < lib and not ao.close(float(best.disorder), lib):
            violations.append({"kind": "soft_exceeds_best",
                               "msg": f"[{name}] soft disorder {lib!r} exceeds the best partition alignment's {float(best.disorder)!r}",
                               "sig": {"config": cfg["mode"]}})
        if lib < opt and not ao.close(lib, opt):
            violations.append({"kind": "below_minimum",
                               "msg": f"[{name}] reported disorder {lib!r} is below the exact optimum {opt!r} ({method})",
                               "sig": {"config": cfg["mode"]}})
    keys = {"cases": [digest(case)], "nontrivial": []}
    nonempty = sum(1 for _, u in case["continuum"]["annotators"] if u)
    if fired and nonempty >= 2 and world.continuum_units(case["continuum"]) >= 2:
        keys["nontrivial"].append(digest(case))
    stats["alignments"] = len(vals)
    stats["candidates"] = pc.candidates_count()
    stats["max_candidates"] = pc.candidates_count()
    return {"violations": violations, "stats": stats, "keys": keys,
            "digest": digest([vals, opt, [v["kind"] for v in violations]]),
            "sample": {"case": case, "optimum": opt, "oracle": method, "library": vals}}


def shrink_candidates(case, violation):
    yield from ac.shrink_align_case(case)

"""C13 - Continuum behaves as sorted unit sets per annotator under any history.

Seeded operation histories (<= 60 operations on <= 4 live continua; alphabet:
3 annotators, 6 segments, labels {None, 'a', 'b', ''}) are executed against the
library and against refmodel.continuum_model; after EVERY operation every
observable of every live continuum is compared with the model:

* annotators alphabetically; each annotator's units without duplicates in the
  documented strict total order (start, end, label with None first); the same
  through iter(), iter_annotator(), [] ; num_units, len(), bool(); the derived
  counts avg/max_num_annotations_per_annotator, avg_length_unit and
  category_weights equal the model's;
* categories cover every label in use (and hold nothing never added); a copy
  carries its source's categories, a merge carries self's categories plus the
  labels of the merged units;
* bounds enclose every unit added since creation / the last reset, and equal
  the units' extent right after reset_bounds();
* in-place and out-of-place merges give equal observables; ``+`` is the
  out-of-place merge;
* ==/!= agree with model equality on (annotators, units), are reflexive and
  symmetric;
* exact zero-length segments raise ValueError and change nothing; removing a
  unit that is not there raises and changes nothing.

There is no scheduler and no fault kind here: a Continuum is an in-memory,
single-caller object and the property says nothing about interrupted
operations.  The family's contribution is the seeded history search, the
executable reference model, shrinking (ddmin over the operation list) and the
replay file.  (DESIGN.md planned a Hypothesis rule-based machine; a
Choices-driven generator is used instead so that the replay file is the
explicit operation list and one shrinker serves all checks.)
"""
import copy

from pyannote.core import Annotation, Segment, Timeline

import pygamma_agreement as pa
from refmodel.continuum_model import ModelContinuum, unit_key
from simkit.runner import digest

ID = "C13"
LEVEL = "exploration"
TIERS = {
    "quick": {"runs": 20000, "wall": 60, "run_timeout": 240, "shrink_s": 40, "shrink_tries": 2000},
    "thorough": {"runs": 700000, "wall": 1000, "run_timeout": 400, "shrink_s": 120, "shrink_tries": 5000},
}
RULE = ("case = seeded history of 5..60 operations (new, add, add zero-length, add_annotator, remove present / absent, merge in place / "
        "out of place, +, copy, copy_flush, reset_bounds, add_timeline, add_annotation, [] access) over <= 4 live continua, 3 annotators, "
        "6 segments (incl. negative start, shared start or end, nested), labels {None,'a','b',''}; all observables (incl. the derived counts avg/max units per annotator, average unit length, category weights) compared with the "
        "reference model after every operation. distinct_nontrivial = distinct model states (content of all live continua) reached "
        "that hold >= 2 units")
ASSUMPTIONS = [
    "single caller, no interrupted operations (the property does not speak about them)",
    "categories are judged as a superset of the labels in use and a subset of the labels ever added; equality only for copies",
    "only exact zero-length segments (start == end) are required to be rejected",
]
COMPONENTS = {"real": ["pygamma_agreement.Continuum / Unit", "sortedcontainers", "pyannote.core Segment / Timeline / Annotation"],
              "stub": ["none (no scheduler, RNG or solver on this path)"]}

ANNOTS = ["A", "B", "C"]
SEGS = [(0.0, 1.0), (0.0, 2.0), (1.0, 2.0), (1.0, 3.5), (2.5, 4.0), (-1.5, 0.5)]
# "" is a legal label (a csv row with an empty category) and must stay distinct from "unlabelled"
LABELS = [None, "a", "b", None, "a", "b", ""]
MAX_LIVE = 4


def gen(ch, tier):
    n = ch.randint(5, 60 if ch.coin(0.5) else 20)
    ops = [["new"]]
    for _ in range(n):
        k = ch.weighted([("add", 30), ("remove_nth", 10), ("remove", 4), ("add_zero", 3), ("add_annotator", 4), ("merge", 6),
                         ("plus", 3), ("copy", 6), ("copy_flush", 2), ("reset", 5), ("timeline", 3), ("annotation", 3),
                         ("new", 3), ("getitem", 3)])
        ci = ch.randint(0, MAX_LIVE - 1)
        a = ch.choice(ANNOTS)
        if k == "add":
            ops.append(["add", ci, a, ch.randint(0, len(SEGS) - 1), ch.choice(LABELS)])
        elif k == "remove_nth":
            ops.append(["remove_nth", ci, a, ch.randint(0, 5)])
        elif k == "remove":
            ops.append(["remove", ci, a, ch.randint(0, len(SEGS) - 1), ch.choice(LABELS)])
        elif k == "add_zero":
            ops.append(["add_zero", ci, a, ch.choice([0.0, 1.0, 2.5]), ch.choice(LABELS)])
        elif k == "add_annotator":
            ops.append(["add_annotator", ci, a])
        elif k == "merge":
            ops.append(["merge", ci, ch.randint(0, MAX_LIVE - 1), ch.coin(0.5)])
        elif k == "plus":
            ops.append(["plus", ci, ch.randint(0, MAX_LIVE - 1)])
        elif k in ("copy", "copy_flush", "reset", "new"):
            ops.append([k, ci])
        elif k == "timeline":
            ops.append(["timeline", ci, a, [ch.randint(0, len(SEGS) - 1) for _ in range(ch.randint(1, 3))]])
        elif k == "annotation":
            ops.append(["annotation", ci, a, [[ch.randint(0, len(SEGS) - 1), ch.choice(["a", "b"])]
                                              for _ in range(ch.randint(1, 3))]])
        elif k == "getitem":
            ops.append(["getitem", ci, a, ch.randint(0, 4)])
    return {"ops": ops}


class Mismatch(Exception):
    def __init__(self, kind, msg):
        super().__init__(msg)
        self.kind = kind


def tup(u):
    return (u.segment.start, u.segment.end, u.annotation)


def observe_and_compare(lib, m, tag):
    try:
        annotators = list(lib.annotators)
        if annotators != m.annotators():
            raise Mismatch("annotators", f"{tag}: annotators {annotators}, model {m.annotators()}")
        if len(lib) != len(annotators) or lib.num_annotators != len(annotators):
            raise Mismatch("counts", f"{tag}: len()={len(lib)}, num_annotators={lib.num_annotators}, {len(annotators)} annotators")
        flat = []
        for a in annotators:
            want = m.units(a)
            got_iter = [tup(u) for u in lib.iter_annotator(a)]
            got_item = [tup(u) for u in lib[a]]
            got_units = [tup(u) for u in lib.iterunits(a)]
            if got_iter != want or got_item != want or got_units != want:
                raise Mismatch("units", f"{tag}: units of {a}: iter_annotator={got_iter} []={got_item}, model {want}")
            for i in range(len(want)):
                if tup(lib[a, i]) != want[i]:
                    raise Mismatch("units", f"{tag}: {a}[{i}] = {tup(lib[a, i])}, model {want[i]}")
            flat.extend((a, u) for u in want)
        got_flat = [(a, tup(u)) for a, u in lib]
        if got_flat != flat:
            raise Mismatch("units", f"{tag}: iter() yields {got_flat}, model {flat}")
        if lib.num_units != m.num_units():
            raise Mismatch("counts", f"{tag}: num_units={lib.num_units}, model {m.num_units()}")
        if bool(lib) != (m.num_units() > 0):
            raise Mismatch("counts", f"{tag}: bool()={bool(lib)} with {m.num_units()} units")
        # derived counts (consumed by the samplers, the fast mode and the CST): judged against the model's sets
        sizes = [len(m.units(a)) for a in annotators]
        if annotators:
            got_max = int(lib.max_num_annotations_per_annotator)
            if got_max != max(sizes):
                raise Mismatch("counts", f"{tag}: max_num_annotations_per_annotator={got_max}, model {max(sizes)}")
            got_avg = float(lib.avg_num_annotations_per_annotator)
            if abs(got_avg - sum(sizes) / len(sizes)) > 1e-12:
                raise Mismatch("counts", f"{tag}: avg_num_annotations_per_annotator={got_avg}, model {sum(sizes) / len(sizes)}")
        if flat:
            want_len = sum(u[1] - u[0] for _, u in flat) / len(flat)
            got_len = float(lib.avg_length_unit)
            if abs(got_len - want_len) > 1e-9 * max(1.0, abs(want_len)):
                raise Mismatch("counts", f"{tag}: avg_length_unit={got_len}, model {want_len}")
            cw = dict(lib.category_weights) if all(u[2] is not None for _, u in flat) else None
            if cw is not None:
                want_cw = {}
                for _, u in flat:
                    want_cw[u[2]] = want_cw.get(u[2], 0) + 1 / len(flat)
                if set(cw) != set(want_cw) or any(abs(cw[k] - want_cw[k]) > 1e-9 for k in cw):
                    raise Mismatch("counts", f"{tag}: category_weights={cw}, model {want_cw}")
        cats = list(lib.categories)
        if cats != sorted(cats) or len(set(cats)) != len(cats):
            raise Mismatch("categories", f"{tag}: categories not a sorted set: {cats}")
        need = m.in_use() | m.cats_lower
        if not set(cats) >= need:
            raise Mismatch("categories", f"{tag}: categories {cats} do not cover {sorted(need)} (labels in use / carried)")
        if not set(cats) <= m.cats:
            raise Mismatch("categories", f"{tag}: categories {cats} hold labels never added (ever added: {sorted(m.cats)})")
        lo, hi = lib.bounds
        if m.ext_min is not None and (lo > m.ext_min or hi < m.ext_max):
            raise Mismatch("bounds", f"{tag}: bounds {(lo, hi)} do not enclose the units added since the last reset "
                                     f"({m.ext_min}, {m.ext_max})")
        if not (lib == lib) or (lib != lib):
            raise Mismatch("equality", f"{tag}: continuum is not equal to itself")
    except Mismatch:
        raise
    except Exception as e:  # noqa: BLE001
        raise Mismatch("observation_raises", f"{tag}: observing the continuum raised {type(e).__name__}: {e}")


def full_obs(lib):
    return ([(a, tup(u)) for a, u in lib], list(lib.annotators), list(lib.categories), lib.bounds)


def run(case):
    libs, models = [], []
    states = set()
    nontrivial = set()
    stats = {"ops": 0}
    violation = None
    step = -1

    def place(ci, lib, m):
        if len(libs) < MAX_LIVE:
            libs.append(lib)
            models.append(m)
        else:
            libs[ci % MAX_LIVE] = lib
            models[ci % MAX_LIVE] = m

    try:
        for step, op in enumerate(case["ops"]):
            k = op[0]
            if k == "new" or not libs:
                place(op[1] if len(op) > 1 else 0, pa.Continuum(), ModelContinuum())
                if k != "new":
                    pass
            if k == "new":
                pass
            else:
                ci = op[1] % len(libs)
                lib, m = libs[ci], models[ci]
                stats[f"op_{k}"] = stats.get(f"op_{k}", 0) + 1
                if k == "add":
                    s, e = SEGS[op[3]]
                    lib.add(op[2], Segment(s, e), op[4])
                    m.add(op[2], s, e, op[4])
                elif k == "add_zero":
                    before = full_obs(lib)
                    try:
                        lib.add(op[2], Segment(op[3], op[3]), op[4])
                    except ValueError:
                        pass
                    else:
                        raise Mismatch("zero_length", f"add of zero-length segment [{op[3]}, {op[3]}] was accepted")
                    if full_obs(lib) != before:
                        raise Mismatch("zero_length", "a rejected zero-length add changed the continuum")
                elif k == "add_annotator":
                    lib.add_annotator(op[2])
                    m.add_annotator(op[2])
                elif k in ("remove", "remove_nth"):
                    a = op[2]
                    if k == "remove_nth":
                        if a not in m.annot or not m.annot[a]:
                            continue
                        us = m.units(a)
                        s, e, l = us[op[3] % len(us)]
                    else:
                        (s, e), l = SEGS[op[3]], op[4]
                    present = a in m.annot and (s, e, l) in m.annot[a]
                    before = full_obs(lib)
                    try:
                        lib.remove(a, pa.Unit(Segment(s, e), l))
                    except Exception as ex:  # noqa: BLE001
                        if present:
                            # is the container still consistent?
                            try:
                                observe_and_compare(lib, m, "after failed remove")
                                consistent = True
                            except Mismatch:
                                consistent = False
                            raise Mismatch("remove_present_fails",
                                           f"remove({a}, {(s, e, l)}) of a unit that is present raised {type(ex).__name__}: {ex}"
                                           + ("" if consistent else " and left the container inconsistent"))
                        stats["remove_absent_raised"] = stats.get("remove_absent_raised", 0) + 1
                        if full_obs(lib) != before:
                            raise Mismatch("remove_absent", "a failed remove of an absent unit changed the continuum")
                    else:
                        if not present:
                            raise Mismatch("remove_absent", f"remove({a}, {(s, e, l)}) of an absent unit did not raise")
                        m.remove(a, s, e, l)
                elif k in ("merge", "plus"):
                    cj = op[2] % len(libs)
                    other, mo = libs[cj], models[cj]
                    in_place = k == "merge" and op[3]
                    pre_self_cats = set(lib.categories)
                    # the out-of-place result, always computed to compare both forms
                    res = (lib + other) if k == "plus" else lib.merge(other, in_place=False)
                    mres = m.clone()
                    mres.merge_from(mo)
                    mres.cats = m.cats | mo.cats
                    mres.cats_lower = pre_self_cats | mo.in_use()
                    if res is None:
                        raise Mismatch("merge", "out-of-place merge returned None")
                    observe_and_compare(res, mres, f"op {step} {k} result")
                    mres.cats_lower = set()
                    if in_place:
                        r2 = lib.merge(other, in_place=True)
                        models[ci] = mres.clone()
                        observe_and_compare(lib, models[ci], f"op {step} in-place merge")
                        if full_obs(lib)[:2] != full_obs(res)[:2] or not (lib == res):
                            raise Mismatch("merge", "in-place and out-of-place merges disagree")
                        if r2 is not None:
                            stats["inplace_returns_value"] = 1
                    else:
                        place(op[1] + 1, res, mres)
                elif k == "copy":
                    c = lib.copy()
                    mc = m.clone()
                    mc.cats_lower = set(lib.categories)
                    observe_and_compare(c, mc, f"op {step} copy")
                    mc.cats_lower = set()
                    if set(c.categories) != set(lib.categories):
                        raise Mismatch("categories", f"copy has categories {list(c.categories)}, source {list(lib.categories)}")
                    if c.bounds != lib.bounds:
                        raise Mismatch("bounds", f"copy has bounds {c.bounds}, source {lib.bounds}")
                    if not (c == lib and lib == c):
                        raise Mismatch("equality", "a copy is not equal to its source")
                    place(op[1] + 1, c, mc)
                elif k == "copy_flush":
                    c = lib.copy_flush()
                    mc = m.flushed()
                    if c.bounds != lib.bounds:
                        raise Mismatch("bounds", f"copy_flush has bounds {c.bounds}, source {lib.bounds}")
                    mc.ext_min = mc.ext_max = None   # nothing was added to it yet
                    place(op[1] + 1, c, mc)
                elif k == "reset":
                    lib.reset_bounds()
                    m.reset_bounds()
                    if m.ext_min is not None and lib.bounds != (m.ext_min, m.ext_max):
                        raise Mismatch("bounds", f"after reset_bounds bounds are {lib.bounds}, units' extent is "
                                                 f"{(m.ext_min, m.ext_max)}")
                elif k == "timeline":
                    segs = [SEGS[i] for i in op[3]]
                    lib.add_timeline(op[2], Timeline([Segment(s, e) for s, e in segs]))
                    for s, e in segs:
                        m.add(op[2], s, e, None)
                elif k == "annotation":
                    ann = Annotation()
                    seen = {}
                    for si, l in op[3]:
                        s, e = SEGS[si]
                        # one track per segment in the Annotation; a repeated segment overwrites
                        ann[Segment(s, e)] = l
                        seen[(s, e)] = l
                    lib.add_annotation(op[2], ann)
                    for (s, e), l in seen.items():
                        m.add(op[2], s, e, l)
                elif k == "getitem":
                    a = op[2]
                    if a in m.annot:
                        got = lib[a]
                        if op[3] < len(got):
                            u = got[op[3]]
                        # mutating the returned set must not touch the continuum
                        got.clear()
                    else:
                        try:
                            lib[a]
                        except KeyError:
                            pass
                        else:
                            raise Mismatch("getitem", f"[{a!r}] on a continuum without that annotator did not raise KeyError")
            stats["ops"] += 1
            # ---- compare everything after every operation --------------------------------
            for i, (lb, md) in enumerate(zip(libs, models)):
                observe_and_compare(lb, md, f"after op {step} {op}, continuum #{i}")
            for i in range(len(libs)):
                for j in range(i + 1, len(libs)):
                    e1, e2 = libs[i] == libs[j], libs[j] == libs[i]
                    want = models[i].content() == models[j].content()
                    if e1 != want or e2 != want or (libs[i] != libs[j]) == want:
                        raise Mismatch("equality", f"after op {step}: #{i} == #{j} is {e1}/{e2}, model says {want}")
            st = digest([md.content() for md in models])
            states.add(st)
            if sum(md.num_units() for md in models) >= 2:
                nontrivial.add(st)
    except Mismatch as mm:
        violation = {"kind": mm.kind, "msg": f"step {step} {case['ops'][step] if 0 <= step < len(case['ops']) else ''}: {mm}",
                     "sig": {"kind": mm.kind}, "step": step}
    except Exception as e:  # noqa: BLE001
        violation = {"kind": "operation_raises",
                     "msg": f"step {step} {case['ops'][step] if 0 <= step < len(case['ops']) else ''} raised "
                            f"{type(e).__name__}: {e}", "sig": {"kind": "operation_raises", "exc": type(e).__name__}, "step": step}
    stats["max_states"] = len(states)
    return {"violations": [violation] if violation else [], "stats": stats,
            "keys": {"states": sorted(states), "nontrivial": sorted(nontrivial)},
            "digest": digest([sorted(states)[-3:], violation["kind"] if violation else None]),
            "sample": {"ops": case["ops"][:25], "n_ops": len(case["ops"])}}


def shrink_candidates(case, violation):
    ops = case["ops"]
    step = violation.get("step")
    if step is not None and step + 1 < len(ops):
        yield {"ops": ops[:step + 1]}
    n = len(ops)
    chunk = max(1, n // 2)
    while chunk >= 1:
        for i in range(0, n, chunk):
            cand = ops[:i] + ops[i + chunk:]
            if cand and len(cand) < n:
                yield {"ops": cand}
        chunk //= 2

"""C20 - command-line results equal the API results for the same options (thin fit).

``pygamma_cmd()`` runs IN-PROCESS inside the simulator: patched ``sys.argv``,
captured ``sys.stdout``, the simulated pool under a seeded schedule, the RNG
seam in record mode, ``Path.iterdir`` returning a seeded permutation, and
optionally solver faults.  Input files (csv with a seeded delimiter, rttm,
several files, a directory) live in a scratch directory under /dev/shm that is
removed afterwards.

The API twin loads the same files in the order the CLI reported them, seeds
NumPy once with the same seed, builds the dissimilarity the option set
*documents* (absolute / numerical / levenshtein; alpha, beta, delta_empty),
the sampler (-m), precision and n_samples, calls compute_gamma(fast=True) and
runs under a DIFFERENT seeded schedule - so equality also exercises schedule
independence.  Oracle: gamma / gamma-cat / gamma-k parsed from print, CSV or
JSON output equal the API values for every input file (float32 text
round-trip tolerance), the output parses, and the CLI does not fail where the
API succeeds.

(workload) that "each option takes effect" is decided by swarm-randomised
option sets, i.e. configuration variety, not by schedule or fault search.
"""
import ast
import copy
import csv
import io
import json
import os
import pathlib
import shutil
import sys

import numpy as np

import pygamma_agreement as pa
from simkit import world
from simkit.choices import Choices
from simkit.runner import digest
from . import common

ID = "C20"
LEVEL = "exploration"
TIERS = {
    "quick": {"runs": 140, "wall": 60, "run_timeout": 240, "shrink_s": 60},
    "thorough": {"runs": 12000, "wall": 1100, "run_timeout": 400, "shrink_s": 180},
}
RULE = ("case = 1..3 generated input files (csv with delimiter , ; or tab / rttm / a directory of files; 2..3 annotators, <= 6 units "
        "each, alphabetic or numeric labels) x option set (-a -b -e -p -n -d -m -c -k --seed -s, output print / -o csv / -j json, each "
        "away from its default with its own probability) x CLI schedule x API schedule x directory order x solver fault plan. "
        "distinct_nontrivial = distinct (files, option set) pairs with >= 2 options away from their defaults whose CLI and API "
        "values were compared")
ASSUMPTIONS = [
    "the API twin maps -d absolute/numerical/levenshtein to Absolute/Numerical/Levenshtein categorical dissimilarities as documented",
    "values compared after float32 text round trip with 2e-6 relative tolerance",
    "precision levels are chosen so that a computation needs at most a few hundred samples",
    "option coverage is configuration testing hosted in the simulator, not schedule/fault search",
]
COMPONENTS = {"real": common.REAL_COMPONENTS + ["pygamma_agreement.cli_apps (argparse, writers)", "csv / json / pyannote rttm loader"],
              "stub": common.STUB_COMPONENTS + ["sys.argv", "sys.stdout (captured)", "Path.iterdir (seeded permutation)"]}
SCRATCH_ROOT = "/dev/shm"


def gen(ch, tier):
    fmt = ch.weighted([("csv", 5), ("rttm", 1)])
    numeric = ch.coin(0.45)
    labels = ["1", "2", "4", "7"] if numeric else world.LABELS_WORDS
    nfiles = ch.choice([1, 1, 2, 3])
    files = []
    for i in range(nfiles):
        n_annot = ch.randint(2, 3)
        names = world.ANNOTATOR_NAMES[:n_annot]
        ref = []
        t = 0.0
        for _ in range(ch.randint(2, 6)):
            t += ch.uniform(0.5, 3.0)
            d = ch.uniform(1.0, 5.0)
            ref.append((t, t + d, ch.choice(labels)))
            t += d
        ann = []
        for nm in names:
            units = []
            for (s, e, l) in ref:
                if ch.coin(0.12) and len(units) > 0:
                    continue
                units.append([world.r3(s + ch.uniform(-0.6, 0.6)), world.r3(e + ch.uniform(-0.6, 0.6)),
                              l if ch.coin(0.7) else ch.choice(labels)])
            ann.append([nm, units])
        files.append({"name": f"f{i}_{ch.randint(0, 999)}.{fmt}", "annotators": ann})
    opts = {}
    if ch.coin(0.6):
        opts["alpha"] = ch.choice([0.5, 2.0, 3.0])
    if ch.coin(0.6):
        opts["beta"] = ch.choice([0.0, 0.5, 2.0])
    if ch.coin(0.4):
        opts["empty_delta"] = ch.choice([0.5, 1.5, 2.0])
    if ch.coin(0.93 if tier == "quick" else 0.85):
        opts["precision"] = ch.choice([0.3, 0.5, 0.8, 0.2])
    if ch.coin(0.9 if tier == "quick" else 0.8):
        opts["n_samples"] = ch.randint(2, 8)
    else:
        opts["n_samples_default"] = True
    d = ch.choice(["absolute", None, "levenshtein", "numerical", "numerical"] if numeric else ["absolute", None, "levenshtein", "levenshtein"])
    if d is not None:
        opts["cat_dissim"] = d
    opts["mathet"] = ch.coin(0.4)
    opts["gamma_cat"] = ch.coin(0.6)
    opts["gamma_k"] = ch.coin(0.6)
    # boundary seeds are legal values of --seed (0 is falsy, 2**32 - 1 is the largest NumPy accepts)
    opts["seed"] = ch.choice([0, 0, 1, 2**32 - 1]) if ch.coin(0.25) else ch.randint(0, 2**31 - 1)
    sep = ch.choice([",", ",", ";", "\t"]) if fmt == "csv" else ","
    if sep != ",":
        opts["separator"] = sep
    return {"format": fmt, "files": files, "as_directory": nfiles >= 2 and ch.coin(0.4), "options": opts,
            "output": ch.choice(["print", "print", "csv", "json"]), "dir_perm_seed": ch.randint(0, 2**31 - 1),
            "cli_schedule": world.gen_schedule(ch.sub("cli")), "api_schedule": world.gen_schedule(ch.sub("api")),
            "faults": world.gen_faults(ch.sub("faults"), 0.25)}


def write_files(case, root):
    sep = case["options"].get("separator", ",")
    paths = []
    d = os.path.join(root, "inputs")
    os.makedirs(d)
    for f in case["files"]:
        p = os.path.join(d, f["name"])
        with open(p, "w", newline="") as fh:
            if case["format"] == "csv":
                w = csv.writer(fh, delimiter=sep)
                for a, units in f["annotators"]:
                    for s, e, l in units:
                        w.writerow([a, l, s, e])
            else:
                for a, units in f["annotators"]:
                    for s, e, l in units:
                        fh.write(f"SPEAKER {a} 1 {s:.3f} {e - s:.3f} <NA> <NA> {l} <NA> <NA>\n")
        paths.append(p)
    return d, paths


def build_argv(case, in_dir, paths, out_path):
    o = case["options"]
    argv = ["pygamma-agreement"]
    argv += [in_dir] if case["as_directory"] else list(paths)
    if case["format"] == "rttm":
        argv += ["-f", "rttm"]
    if "separator" in o:
        argv += ["-s", o["separator"]]
    argv += ["--seed", str(o["seed"])]
    if "alpha" in o:
        argv += ["-a", str(o["alpha"])]
    if "beta" in o:
        argv += ["-b", str(o["beta"])]
    if "empty_delta" in o:
        argv += ["-e", str(o["empty_delta"])]
    if "precision" in o:
        argv += ["-p", str(o["precision"])]
    if "n_samples" in o:
        argv += ["-n", str(o["n_samples"])]
    if "cat_dissim" in o:
        argv += ["-d", o["cat_dissim"]]
    if o.get("mathet"):
        argv += ["-m"]
    if o.get("gamma_cat"):
        argv += ["-c"]
    if o.get("gamma_k"):
        argv += ["-k"]
    if case["output"] == "csv":
        argv += ["-o", out_path]
    elif case["output"] == "json":
        argv += ["-j", out_path]
    return argv


def run_cli(case, argv, schedule, faults, perm_seed):
    from pygamma_agreement import cli_apps
    buf = io.StringIO()
    orig_iterdir = pathlib.Path.iterdir

    def iterdir(self_):
        items = sorted(orig_iterdir(self_))
        return iter(Choices(perm_seed).shuffled(items))

    def work():
        old_argv, old_out = sys.argv, sys.stdout
        sys.argv = argv
        sys.stdout = buf
        pathlib.Path.iterdir = iterdir
        try:
            cli_apps.pygamma_cmd()
        finally:
            sys.argv, sys.stdout = old_argv, old_out
            pathlib.Path.iterdir = orig_iterdir
    out = common.sim_call(work, schedule, faults=faults)
    return out, buf.getvalue()


def parse_print(text):
    res = []
    cur = None
    for line in text.splitlines():
        line = line.strip()
        if not line or line.startswith("Discarded invalid"):
            continue
        if line.startswith("gamma="):
            cur["gamma"] = float(line.split("=", 1)[1])
        elif line.startswith("gamma-cat="):
            cur["gamma-cat"] = float(line.split("=", 1)[1])
        elif line.startswith("gamma-k('"):
            key, val = line[len("gamma-k('"):].split("')=", 1)
            cur.setdefault("gamma-k", {})[key] = float(val)
        else:
            cur = {"file": line}
            res.append(cur)
    return res


def parse_csv(path, sep, opts):
    with open(path, newline="") as fh:
        rows = list(csv.reader(fh, delimiter=sep))
    header, rows = rows[0], rows[1:]
    res = []
    for r in rows:
        cur = {"file": r[0], "gamma": float(r[1])}
        i = 2
        if opts.get("gamma_cat"):
            cur["gamma-cat"] = float(r[i])
            i += 1
        if opts.get("gamma_k"):
            cell = eval(r[i], {"__builtins__": {}}, {"inf": float("inf"), "nan": float("nan")})  # dict repr, may hold -inf
            cur["gamma-k"] = {str(k): float(v) for k, v in cell.items()}
        res.append(cur)
    return header, res


def parse_json(path):
    with open(path) as fh:
        data = json.load(fh)
    return [dict({"file": k}, **{kk: vv for kk, vv in v.items()}) for k, v in data.items()]


def api_twin(case, order, schedule):
    o = case["options"]

    def work():
        np.random.seed(o["seed"])
        res = []
        for path in order:
            if case["format"] == "csv":
                c = pa.Continuum.from_csv(path, delimiter=o.get("separator", ","))
            else:
                c = pa.Continuum.from_rttm(path)
            cd = None
            kind = o.get("cat_dissim", "absolute")
            if kind == "levenshtein":
                cd = pa.LevenshteinCategoricalDissimilarity(c.categories)
            elif kind == "numerical":
                cd = pa.NumericalCategoricalDissimilarity(c.categories)
            d = pa.CombinedCategoricalDissimilarity(alpha=o.get("alpha", 1), beta=o.get("beta", 1),
                                                    delta_empty=o.get("empty_delta", 1), cat_dissim=cd)
            sampler = pa.ShuffleContinuumSampler() if o.get("mathet") else None
            g = c.compute_gamma(dissimilarity=d, precision_level=o.get("precision", 0.05), fast=True, sampler=sampler,
                                n_samples=o.get("n_samples", 30))
            cur = {"file": path, "gamma": float(g.gamma)}
            if o.get("gamma_cat"):
                cur["gamma-cat"] = float(g.gamma_cat)
            if o.get("gamma_k"):
                cur["gamma-k"] = {cat: float(g.gamma_k(cat)) for cat in c.categories}
            res.append(cur)
        return res
    return common.sim_call(work, schedule)


def same(a, b):
    if a == b:
        return True
    if np.isnan(a) and np.isnan(b):
        return True
    return abs(a - b) <= 2e-6 * max(1.0, abs(a), abs(b))


def run(case):
    root = os.path.join(SCRATCH_ROOT, f"verif-c20-{os.getpid()}")
    shutil.rmtree(root, ignore_errors=True)
    os.makedirs(root)
    stats, violations = {}, []
    o = case["options"]
    try:
        in_dir, paths = write_files(case, root)
        out_path = os.path.join(root, "report.out")
        argv = build_argv(case, in_dir, paths, out_path)
        big = "precision" not in o or "n_samples" not in o
        cli_sched = dict(case["cli_schedule"], trace_lines=False) if big else case["cli_schedule"]
        api_sched = dict(case["api_schedule"], trace_lines=False) if big else case["api_schedule"]
        out, text = run_cli(case, argv, cli_sched, case.get("faults"), case["dir_perm_seed"])
        common.sim_stats(out, stats)
        stats["cli_runs"] = 1
        stats["output_" + case["output"]] = 1
        if case["as_directory"]:
            stats["fault_dir_order"] = 1
        cli_err = out.error
        parsed = None
        if cli_err is None:
            try:
                if case["output"] == "print":
                    parsed = parse_print(text)
                elif case["output"] == "csv":
                    header, parsed = parse_csv(out_path, o.get("separator", ","), o)
                    want = ["filename", "gamma"] + (["gamma-cat"] if o.get("gamma_cat") else []) + (["gamma-k"] if o.get("gamma_k") else [])
                    if header != want:
                        violations.append({"kind": "output_format", "msg": f"CSV header {header}, expected {want}", "sig": {"out": "csv"}})
                else:
                    parsed = parse_json(out_path)
            except Exception as e:  # noqa: BLE001
                raw = ""
                try:
                    raw = open(out_path).read()[:300] if case["output"] != "print" else text[:300]
                except Exception:  # noqa: BLE001
                    pass
                violations.append({"kind": "output_unparsable",
                                   "msg": f"{case['output']} output does not parse as numbers ({type(e).__name__}: {e}); "
                                          f"argv={argv[1:]}; output starts: {raw!r}",
                                   "sig": {"out": case["output"], "exc": type(e).__name__}})
        order = [p["file"] for p in parsed] if parsed else (paths if not case["as_directory"] else
                                                            [str(x) for x in Choices(case["dir_perm_seed"]).shuffled(sorted(pathlib.Path(in_dir).iterdir()))])
        if parsed is not None and sorted(order) != sorted(paths):
            violations.append({"kind": "files", "msg": f"CLI reported files {order}, inputs were {paths}", "sig": {}})
        if not violations:
            api = api_twin(case, order, api_sched)
            common.sim_stats(api, stats)
            if cli_err is not None:
                if isinstance(cli_err, SystemExit):
                    violations.append({"kind": "cli_fails", "msg": f"the CLI exited with {cli_err.code!r} for argv={argv[1:]}",
                                       "sig": {"exc": "SystemExit"}})
                elif api.error is None:
                    violations.append({"kind": "cli_fails",
                                       "msg": f"the CLI raised {type(cli_err).__name__}: {str(cli_err)[:200]} for argv={argv[1:]} while the "
                                              f"API computes the values", "sig": {"exc": type(cli_err).__name__, "out": case["output"]}})
                else:
                    stats["both_raise"] = 1
            elif api.error is not None:
                violations.append({"kind": "api_fails_cli_succeeds",
                                   "msg": f"the API twin raised {type(api.error).__name__}: {str(api.error)[:200]} but the CLI reported values "
                                          f"for argv={argv[1:]}", "sig": {"exc": type(api.error).__name__, "d": o.get("cat_dissim")}})
            else:
                stats["files_compared"] = len(api.value)
                for cv, av in zip(parsed, api.value):
                    for key in ("gamma", "gamma-cat"):
                        if (key in av) != (key in cv):
                            violations.append({"kind": "missing_value", "msg": f"{key} {'missing from' if key in av else 'unexpected in'} "
                                                                             f"the {case['output']} output", "sig": {"key": key}})
                        elif key in av and not same(cv[key], av[key]):
                            violations.append({"kind": "value_differs",
                                               "msg": f"{key}: CLI ({case['output']}) reports {cv[key]!r}, API gives {av[key]!r} for "
                                                      f"options {o} (file {os.path.basename(cv['file'])})",
                                               "sig": {"key": key, "d": o.get("cat_dissim")}})
                    if "gamma-k" in av:
                        ck = cv.get("gamma-k")
                        if ck is None or sorted(ck) != sorted(av["gamma-k"]):
                            violations.append({"kind": "missing_value", "msg": f"gamma-k categories {sorted(ck or [])} vs API "
                                                                             f"{sorted(av['gamma-k'])}", "sig": {"key": "gamma-k"}})
                        else:
                            for cat, v in av["gamma-k"].items():
                                if not same(ck[cat], v):
                                    violations.append({"kind": "value_differs",
                                                       "msg": f"gamma-k({cat!r}): CLI ({case['output']}) reports {ck[cat]!r}, API gives {v!r} "
                                                              f"for options {o}", "sig": {"key": "gamma-k", "d": o.get("cat_dissim")}})
                                    break
                    if violations:
                        break
    finally:
        shutil.rmtree(root, ignore_errors=True)
    away = sum(1 for k in ("alpha", "beta", "empty_delta", "precision", "n_samples", "separator") if k in o) \
        + int(o.get("cat_dissim", "absolute") != "absolute") + int(bool(o.get("mathet"))) + int(case["output"] != "print")
    cd = digest([case["files"], case["format"], o, case["output"]])
    keys = {"cases": [cd], "nontrivial": [cd] if (away >= 2 and stats.get("files_compared")) else [],
            "option_sets": [digest([sorted(k for k in o if k != "seed"), o.get("cat_dissim"), case["output"], case["format"]])]}
    for k in ("alpha", "beta", "empty_delta", "precision", "n_samples", "separator", "cat_dissim"):
        if k in o:
            stats["opt_" + k] = 1
    if o.get("cat_dissim"):
        stats["opt_d_" + o["cat_dissim"]] = 1
    return {"violations": violations[:2], "stats": stats, "keys": keys,
            "digest": digest([text.replace(root, "<scratch>") if case["output"] == "print" else None, [v["kind"] for v in violations[:2]]]),
            "sample": {"argv": [a.replace(root, "<scratch>") for a in argv[1:]], "files": case["files"][:1],
                       "cli_schedule": case["cli_schedule"], "api_schedule": case["api_schedule"]}}


def shrink_candidates(case, violation):
    if len(case["files"]) > 1:
        for i in range(len(case["files"])):
            c = copy.deepcopy(case)
            c["files"] = [case["files"][i]]
            c["as_directory"] = False
            yield c
    for k in ("alpha", "beta", "empty_delta", "separator", "cat_dissim"):
        if k in case["options"]:
            c = copy.deepcopy(case)
            del c["options"][k]
            yield c
    for k in ("mathet", "gamma_cat", "gamma_k"):
        if case["options"].get(k):
            c = copy.deepcopy(case)
            c["options"][k] = False
            yield c
    if case["output"] != "print":
        c = copy.deepcopy(case)
        c["output"] = "print"
        yield c
    if case.get("faults", {}).get("mode", "none") != "none":
        c = copy.deepcopy(case)
        c["faults"] = {"mode": "none", "fail": None}
        yield c
    for key in ("cli_schedule", "api_schedule"):
        if case[key]["policy"].get("policy") != "seq":
            c = copy.deepcopy(case)
            c[key] = copy.deepcopy(world.CANONICAL_SCHEDULE)
            yield c
    for fi, f in enumerate(case["files"]):
        for ai, (a, units) in enumerate(f["annotators"]):
            if len(units) > 1:
                for ui in range(len(units)):
                    c = copy.deepcopy(case)
                    del c["files"][fi]["annotators"][ai][1][ui]
                    yield c

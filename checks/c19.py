"""C19 - corpus shuffling yields valid corpora and each perturbation is confined.

RNG-seam simulation: the CorpusShufflingTool runs with ``numpy.random`` behind
the seam; every other trial uses an adversary returning legal extremes
(uniform(-1,1) at -1 and just below 1, random() at 0 and just below 1,
randint ends, +-4 sigma durations, first / last category).

Per case (single-annotator reference of 1..12 units and 1..4 categories,
magnitude in {0, 1} or (0,1), annotators as count or names, a seeded subset of
the 2^6 flag combinations):

A. every corpus from corpus_shuffle(...) has exactly the requested annotators
   (+ the reference when asked), none empty, only positive-duration units and
   only the reference's categories; magnitude 0 => every generated annotator
   equals the reference.
B. each *_shuffle applied ALONE to corpus_from_reference(...): category
   shuffle keeps every annotator's segments; splitting keeps each annotator's
   total duration (1e-9 relative) and adds int(m * SPLIT_FACTOR * units) units
   per annotator; false negatives only remove; false positives only add;
   shifting keeps the number of units.  The reference is never changed.

With real draws an exception is a violation; under adversarial draws an
exception is only counted (the property speaks about corpora that are
produced).
"""
import copy
import itertools

import numpy as np

import pygamma_agreement as pa
from simkit import world
from simkit.adversary import Adversary
from simkit.choices import Choices
from simkit.rngseam import RngSeam
from simkit.runner import digest

ID = "C19"
LEVEL = "exploration"
TIERS = {
    "quick": {"runs": 12000, "wall": 60, "run_timeout": 240, "shrink_s": 40, "trials": 6},
    "thorough": {"runs": 400000, "wall": 1000, "run_timeout": 400, "shrink_s": 120, "trials": 10},
}
RULE = ("case = seeded reference (1 annotator, 1..12 units with distinct segments, 1..4 categories) x magnitude x annotators (count or "
        "names) x trials; each trial = one flag combination for corpus_shuffle (all 64 reachable over the runs) + each single "
        "perturbation on corpus_from_reference, alternating real seeded draws and adversarial legal extremes. "
        "distinct_nontrivial = distinct (reference, magnitude, flag combination) triples with magnitude > 0 and >= 1 flag set")
ASSUMPTIONS = [
    "references have pairwise distinct segments (so set semantics cannot merge units by coincidence)",
    "under adversarial draws an exception raised by the tool is counted, not judged",
    "total duration compared with 1e-9 relative tolerance",
]
COMPONENTS = {"real": ["pygamma_agreement.cst.CorpusShufflingTool", "Continuum", "numpy RandomState (record mode)"],
              "stub": ["numpy.random.uniform / random / randint / normal / choice return values in adversarial trials"]}
FLAGS = ("shift", "false_pos", "false_neg", "split", "cat_shuffle", "include_ref")


def gen(ch, tier):
    ncat = ch.randint(1, 4)
    cats = world.LABELS_ALPHA[:ncat]
    units = []
    t = ch.choice([0.0, 0.0, 3.0])
    for _ in range(ch.randint(1, 12)):
        t += ch.uniform(0.1, 4.0)
        d = ch.uniform(0.3, 6.0)
        units.append([world.r3(t), world.r3(t + d), ch.choice(cats)])
        t += d * ch.choice([1.0, 1.0, 0.4])
    mag = ch.choice([0.0, 1.0, ch.uniform(0.01, 0.99), ch.uniform(0.01, 0.99), ch.uniform(0.01, 0.99)])
    annot = ch.choice([1, 2, 3, 4, ["x", "y"], ["Zoe"], ["b", "a", "c"]])
    trials = []
    for _ in range(TIERS[tier]["trials"]):
        seq = None
        if ch.coin(0.5):
            seq = [ch.choice(["shift_shuffle", "false_neg_shuffle", "false_pos_shuffle", "category_shuffle", "splits_shuffle"])
                   for _ in range(ch.randint(2, 3))]
        trials.append({"flags": [ch.coin(0.5) for _ in FLAGS], "np_seed": ch.randint(0, 2**31 - 1), "sequence": seq})
    # history dimension: the same tool object swept over magnitudes (``tool.magnitude = m`` between trials, as the
    # repository's own benchmark does) - anything the tool keeps from an earlier magnitude must not leak into the next
    if ch.coin(0.4):
        for t in trials:
            t["magnitude"] = ch.choice([0.0, 0.0, 1.0, 1.0, world.r3(ch.uniform(0.01, 0.99))])
    return {"reference": units, "magnitude": mag, "annotators": annot, "trials": trials,
            "adv_seed": ch.randint(0, 2**31 - 1), "adv_rate": ch.choice([0.1, 0.3, 0.6])}


def units_of(c, a):
    return [(u.segment.start, u.segment.end, u.annotation) for u in c.iter_annotator(a)]


def landings_uniform(args, kwargs):
    return []


def run(case):
    ref = pa.Continuum()
    for s, e, l in case["reference"]:
        ref.add("Ref", pa.continuum.Segment(s, e), l)
    ref_units = units_of(ref, "Ref")
    ref_cats = set(ref.categories)
    ref_snapshot = (ref_units, list(ref.categories), ref.bounds)
    m = case["magnitude"]
    tool = pa.CorpusShufflingTool(m, ref)
    m_history = []
    names = case["annotators"]
    exp_names = sorted(names) if isinstance(names, list) else sorted(f"annotator_{i}" for i in range(names))
    n_ref = len(ref_units)
    stats, violations = {"trials": 0}, []
    keys = {"nontrivial": [], "flag_combos": []}
    adv = Adversary(Choices(case["adv_seed"]), case["adv_rate"])
    ref_digest = digest(case["reference"])

    def viol(kind, msg, adversarial, **sig):
        violations.append({"kind": kind, "msg": msg + (" [adversarial draws]" if adversarial else " [real draws]"),
                           "sig": dict(sig, adversarial=adversarial)})

    for ti, trial in enumerate(case["trials"]):
        adversarial = ti % 2 == 1
        flags = dict(zip(FLAGS, trial["flags"]))
        if trial.get("magnitude") is not None and trial["magnitude"] != m:
            m = trial["magnitude"]
            tool.magnitude = m
            stats["magnitude_changes"] = stats.get("magnitude_changes", 0) + 1
        m_history.append(m)
        np.random.seed(trial["np_seed"])
        seam = RngSeam(injector=adv if adversarial else None, keep_log=False)
        stats["trials"] += 1
        keys["flag_combos"].append("".join("1" if f else "0" for f in trial["flags"]))
        if m > 0 and any(trial["flags"][:5]):
            keys["nontrivial"].append(digest([ref_digest, m, trial["flags"]]))
        with seam:
            # ---- A. whole corpus ---------------------------------------------------------
            try:
                corpus = tool.corpus_shuffle(names, **flags)
            except Exception as e:  # noqa: BLE001
                if adversarial:
                    stats["raised_under_injection"] = stats.get("raised_under_injection", 0) + 1
                    corpus = None
                else:
                    viol("raises", f"corpus_shuffle({names}, {flags}) with magnitude {m} raised {type(e).__name__}: {e}",
                         adversarial, exc=type(e).__name__)
                    break
            if corpus is not None:
                want = sorted(exp_names + (["Ref"] if flags["include_ref"] else []))
                got = list(corpus.annotators)
                if got != want:
                    viol("annotators", f"corpus has annotators {got}, requested {want} (flags {flags})", adversarial)
                    break
                for a in got:
                    us = units_of(corpus, a)
                    if not us:
                        viol("empty_annotator", f"annotator {a} is empty (m={m}, flags {flags})", adversarial)
                        break
                    if any(not (e > s) or not pa.continuum.Segment(s, e) for s, e, _ in us):
                        viol("non_positive_duration", f"annotator {a} has a unit without positive duration (m={m}, flags {flags})",
                             adversarial)
                        break
                    if any(l not in ref_cats for _, _, l in us):
                        viol("foreign_category", f"annotator {a} has labels outside the reference's categories {sorted(ref_cats)}: "
                                                 f"{sorted({l for _, _, l in us} - ref_cats)} (flags {flags})", adversarial)
                        break
                    if m == 0 and us != ref_units:
                        viol("magnitude_zero", f"magnitude 0 (magnitudes of this tool so far: {m_history}) but annotator {a} differs from the reference (flags {flags}): "
                                               f"{us[:3]} vs {ref_units[:3]}", adversarial)
                        break
                if violations:
                    break
            # ---- B. each perturbation alone ------------------------------------------------
            for which in ("category_shuffle", "splits_shuffle", "false_neg_shuffle", "false_pos_shuffle", "shift_shuffle"):
                base = tool.corpus_from_reference(names)
                before = {a: units_of(base, a) for a in base.annotators}
                try:
                    getattr(tool, which)(base)
                except Exception as e:  # noqa: BLE001
                    if adversarial:
                        stats["raised_under_injection"] = stats.get("raised_under_injection", 0) + 1
                        continue
                    viol("raises", f"{which} on corpus_from_reference({names}) with magnitude {m} raised {type(e).__name__}: {e}",
                         adversarial, exc=type(e).__name__, which=which)
                    break
                stats["perturbations"] = stats.get("perturbations", 0) + 1
                if sorted(base.annotators) != sorted(before):
                    viol("confinement", f"{which} changed the annotators", adversarial, which=which)
                    break
                for a in before:
                    b, af = before[a], units_of(base, a)
                    if which == "category_shuffle":
                        if sorted((s, e) for s, e, _ in b) != sorted((s, e) for s, e, _ in af):
                            viol("confinement", f"category_shuffle changed the segments of {a}: {b[:3]} -> {af[:3]}", adversarial,
                                 which=which)
                    elif which == "splits_shuffle":
                        announced = int(m * tool.SPLIT_FACTOR * n_ref)
                        tb, ta = sum(e - s for s, e, _ in b), sum(e - s for s, e, _ in af)
                        if abs(tb - ta) > 1e-9 * max(1.0, tb):
                            viol("confinement", f"splits_shuffle changed the total duration of {a}: {tb!r} -> {ta!r}", adversarial,
                                 which=which, what="duration")
                        elif len(af) != len(b) + announced:
                            viol("confinement", f"splits_shuffle announced {announced} splits for {a} ({len(b)} units, m={m}) "
                                                f"but {len(af)} units result", adversarial, which=which, what="count")
                    elif which == "false_neg_shuffle":
                        if not set(af) <= set(b):
                            viol("confinement", f"false_neg_shuffle added units to {a}: {sorted(set(af) - set(b))[:3]}", adversarial,
                                 which=which)
                    elif which == "false_pos_shuffle":
                        if not set(af) >= set(b):
                            viol("confinement", f"false_pos_shuffle removed units from {a}: {sorted(set(b) - set(af))[:3]}",
                                 adversarial, which=which)
                    elif which == "shift_shuffle":
                        if len(af) != len(b):
                            viol("confinement", f"shift_shuffle changed the number of units of {a}: {len(b)} -> {len(af)}",
                                 adversarial, which=which)
                    if violations:
                        break
                if violations:
                    break
            # ---- C. perturbations in SEQUENCE on one corpus: each judged against the state just before it ----
            if not violations and trial.get("sequence"):
                corpus = tool.corpus_from_reference(names)
                for which in trial["sequence"]:
                    before = {a: units_of(corpus, a) for a in corpus.annotators}
                    try:
                        getattr(tool, which)(corpus)
                    except Exception as e:  # noqa: BLE001
                        if adversarial:
                            stats["raised_under_injection"] = stats.get("raised_under_injection", 0) + 1
                            break
                        viol("raises", f"{which} (in sequence {trial['sequence']}) with magnitude {m} raised {type(e).__name__}: {e}",
                             adversarial, exc=type(e).__name__, which=which)
                        break
                    stats["sequenced_perturbations"] = stats.get("sequenced_perturbations", 0) + 1
                    for a in before:
                        b, af = before[a], units_of(corpus, a)
                        msg = None
                        if which == "category_shuffle" and sorted((s, e) for s, e, _ in b) != sorted((s, e) for s, e, _ in af):
                            msg = f"category_shuffle changed the segments of {a}"
                        elif which == "false_neg_shuffle" and not set(af) <= set(b):
                            msg = f"false_neg_shuffle added units to {a}: {sorted(set(af) - set(b))[:2]}"
                        elif which == "false_pos_shuffle" and not set(af) >= set(b):
                            msg = f"false_pos_shuffle removed units from {a}: {sorted(set(b) - set(af))[:2]}"
                        elif which == "shift_shuffle" and len(af) != len(b):
                            msg = f"shift_shuffle changed the number of units of {a}: {len(b)} -> {len(af)}"
                        elif which == "splits_shuffle":
                            tb, ta = sum(e - s for s, e, _ in b), sum(e - s for s, e, _ in af)
                            announced = int(m * tool.SPLIT_FACTOR * n_ref)
                            if abs(tb - ta) > 1e-9 * max(1.0, tb):
                                msg = f"splits_shuffle changed the total duration of {a}: {tb!r} -> {ta!r}"
                            # (count judged only when there is room for every split: at each step the longest unit is at
                            # least the average, which then stays far above the 1e-4 below which a unit cannot be split)
                            elif len(af) != len(b) + announced and tb >= (len(b) + announced) * 1e-2:
                                msg = (f"splits_shuffle announced {announced} splits (reference has {n_ref} units, m={m}) but {a} "
                                       f"went from {len(b)} to {len(af)} units")
                        if not af:
                            msg = f"{which} left annotator {a} empty"
                        if msg:
                            viol("confinement", msg + f" (sequence {trial['sequence']}, m={m})", adversarial, which=which, sequence=True)
                            break
                    if violations:
                        break
        stats["rng_calls"] = stats.get("rng_calls", 0) + seam.calls
        if adversarial:
            stats["fault_rng_extreme"] = stats.get("fault_rng_extreme", 0) + sum(seam.injected.values())
        if violations:
            break
        if (units_of(ref, "Ref"), list(ref.categories), ref.bounds) != ref_snapshot:
            viol("reference_changed", "the reference continuum was changed by the shuffling tool", adversarial)
            break
    return {"violations": violations[:1], "stats": stats, "keys": keys,
            "digest": digest([stats.get("perturbations", 0), [v["kind"] for v in violations[:1]]]),
            "sample": {"case": {k: v for k, v in case.items() if k != "trials"}, "first_trial": case["trials"][0]}}


def shrink_candidates(case, violation):
    if len(case["trials"]) > 1:
        for i in range(len(case["trials"])):
            c = copy.deepcopy(case)
            c["trials"] = [case["trials"][i]] if not violation["sig"].get("adversarial") else [case["trials"][0], case["trials"][i]]
            if c["trials"] != case["trials"]:
                yield c
    if any(t.get("magnitude") is not None for t in case["trials"]) and len(case["trials"]) > 2:
        for i in range(1, len(case["trials"])):
            for j in range(i):
                c = copy.deepcopy(case)
                c["trials"] = [case["trials"][j], case["trials"][i]]
                yield c
    units = case["reference"]
    if len(units) > 1:
        c = copy.deepcopy(case)
        c["reference"] = units[: len(units) // 2]
        yield c
        for i in range(len(units)):
            c = copy.deepcopy(case)
            del c["reference"][i]
            yield c
    if case["annotators"] != 1:
        c = copy.deepcopy(case)
        c["annotators"] = 1
        yield c
    for t_i, t in enumerate(case["trials"]):
        for f_i, f in enumerate(t["flags"]):
            if f:
                c = copy.deepcopy(case)
                c["trials"][t_i]["flags"][f_i] = False
                yield c

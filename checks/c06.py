"""C06 - seeded results are reproducible under any thread schedule.

One run = one gamma scenario (continuum x dissimilarity x sampler x mode x
precision x n_samples x NumPy seed) executed

  1. canonically  (1 worker, no pre-emption),
  2. under k seeded schedules (1..16 workers, line-level pre-emption inside the
     package, priority / random / main-runs-ahead / eager shapes),
  3. canonically again (repetition in one process, same objects),

all in one process without rebuilding the dissimilarity or continuum.  Oracle:
every execution yields bit-identical observed disorder, chance-disorder
sequence, sample count, gamma, gamma-cat and gamma-k.  Only executions of the
same code and seed are compared; no value is computed independently.

After the batch, fresh interpreters started with other PYTHONHASHSEED values
recompute the canonical digests of a subset of the same run seeds; they must
equal the digests obtained by the batch workers.
"""
import copy
import json
import os
import subprocess
import sys

import numpy as np

from simkit import world
from simkit.choices import Choices, mix
from simkit.runner import digest
from . import common

ID = "C06"
LEVEL = "exploration"
TIERS = {
    "quick": {"runs": 320, "wall": 60, "run_timeout": 240, "schedules": 4, "hash_seeds": [1, 4242], "hash_runs": 40,
              "shrink_s": 60},
    "thorough": {"runs": 12000, "wall": 1100, "run_timeout": 400, "schedules": 6,
                 "hash_seeds": [1, 2, 4242, 31337, 99991, "random"], "hash_runs": 200, "shrink_s": 180},
}
RULE = ("case = seeded gamma scenario (<=4 annotators x <=7 units, statistical / shuffle-int / shuffle-float / default sampler, "
        "exact / fast / soft mode, optional precision forcing a 2nd batch, optional ground-truth subset) executed canonically, "
        "under k seeded schedules (workers 1..16; random, priority(PCT), main-runs-ahead, eager policies; pre-emption at every "
        "source line of the package) and canonically again; all digests (float bit patterns of observed disorder, every chance "
        "disorder in order, n_samples, gamma, gamma-cat, gamma-k per category) must be identical. "
        "distinct_nontrivial = distinct (scenario digest, schedule digest) pairs whose schedule had >=1 cross-thread switch "
        "at a source-line yield point inside a job/sampling section")
ASSUMPTIONS = [
    "pre-emption is modelled at source-line granularity inside pygamma_agreement; numba/CBC/GLPK/NumPy sections are atomic",
    "simulated schedules are a subset of real CPython schedules (FIFO dequeue, any worker count a machine could have)",
    "hash-seed independence is sampled on the listed PYTHONHASHSEED values only",
]
COMPONENTS = {"real": common.REAL_COMPONENTS, "stub": common.STUB_COMPONENTS}


def gen(ch, tier):
    k = TIERS[tier]["schedules"]
    big = tier == "thorough" and ch.coin(0.3)
    scn = world.gen_gamma_scenario(ch.sub("scn"), max_annot=4, max_units=9 if big else 6,
                                   max_samples=12 if big else 8, large_fast=0.07 if tier == "quick" else 0.12,
                                   precisions=(None, None, 0.3, 0.2, 0.15, 0.1))
    return {"scenario": scn,
            "schedules": [world.gen_schedule(ch.sub(f"sched{i}")) for i in range(k)],
            "with_cat": True, "real_pool_probe": ch.coin(0.25),
            # "repeated in one process": half of the cases re-use ONE sampler object for every execution
            "reuse_sampler": ch.coin(0.5)}


def _workload(scn, continuum, dissim, with_cat, shared_sampler=None):
    def work():
        np.random.seed(scn["np_seed"])
        sampler = shared_sampler if shared_sampler is not None else world.build_sampler(scn["sampler"])
        g = continuum.compute_gamma(**world.gamma_kwargs(scn, dissim, sampler))
        vals = {"observed": common.fval(g.observed_disorder),
                "chance": [common.fval(a.disorder) for a in g.chance_alignments],
                "n_samples": g.n_samples,
                "gamma": common.fval(g.gamma)}
        if with_cat and scn["dissim"]["kind"] == "comb":
            vals["gamma_cat"] = common.fval(g.gamma_cat)
            vals["gamma_k"] = {c: common.fval(g.gamma_k(c)) for c in continuum.categories}
        return vals
    return work


def _outcome(out):
    if out.error is not None:
        return {"error": type(out.error).__name__}
    return out.value


def _diff(a, b):
    if a == b:
        return None
    if "error" in a or "error" in b:
        return f"outcome differs: {a.get('error', 'value')} vs {b.get('error', 'value')}"
    for k in ("observed", "n_samples", "chance", "gamma", "gamma_cat", "gamma_k"):
        if a.get(k) != b.get(k):
            if k == "chance":
                la, lb = a["chance"], b["chance"]
                if sorted(la) == sorted(lb):
                    return "chance disorders are the same multiset but in a different order"
                idx = next((i for i, (x, y) in enumerate(zip(la, lb)) if x != y), min(len(la), len(lb)))
                return f"chance disorders differ from index {idx} (lengths {len(la)} / {len(lb)})"
            return f"{k} differs: {a.get(k)} vs {b.get(k)}"
    return "digests differ"


def canonical(scn, with_cat=True):
    continuum = world.build_continuum(scn["continuum"])
    dissim = world.build_dissim(scn["dissim"])
    out = common.sim_call(_workload(scn, continuum, dissim, with_cat), world.CANONICAL_SCHEDULE)
    return _outcome(out)


def run(case):
    scn = case["scenario"]
    continuum = world.build_continuum(scn["continuum"])
    # a FRESH dissimilarity object per run: it is the one object shared by all pool jobs, and a run must not
    # depend on what earlier runs of this worker process did to it (exact replay in a fresh process)
    dissim = world.build_dissim(scn["dissim"], fresh=True)
    shared = world.build_sampler(scn["sampler"]) if case.get("reuse_sampler") else None
    work = _workload(scn, continuum, dissim, case.get("with_cat", True), shared)
    stats, keys, violations = {}, {"schedules": [], "scenarios": [], "completion_orders": [], "nontrivial": []}, []
    events = []
    scn_d = digest(scn)
    keys["scenarios"].append(scn_d)

    out0 = common.sim_call(work, world.CANONICAL_SCHEDULE)
    common.sim_stats(out0, stats)
    ref = _outcome(out0)
    stats["executions"] = 1
    if "error" in ref:
        stats["scenario_raises"] = 1
    elif len(ref["chance"]) > scn["n_samples"]:
        stats["second_batch_taken"] = 1
    for i, sch in enumerate(case["schedules"]):
        out = common.sim_call(work, sch)
        common.sim_stats(out, stats)
        stats["executions"] += 1
        got = _outcome(out)
        sd = common.sched_digest(out)
        keys["schedules"].append(sd)
        keys["completion_orders"].append(digest(out.exec_stats.completion_order))
        events.append([sd, out.exec_stats.completion_order, out.exec_stats.start_order, out.rng.log[:2000], got])
        if out.sched.in_job_switches > 0:
            keys["nontrivial"].append(digest([scn_d, sd]))
        d = _diff(ref, got)
        if d is not None:
            violations.append({
                "kind": "schedule_dependent_result",
                "msg": f"schedule #{i} (workers={sch['workers']}, policy={sch['policy'].get('policy')}) gives a result "
                       f"different from the canonical sequential execution: {d}",
                "sig": {"what": d.split(":")[0].split(" from index")[0]},
                "schedule_index": i,
                "explicit_switches": out.sched.explicit_switches() if len(out.sched.switch_log) <= 4000 else None,
                "canonical": ref, "got": got,
            })
            break
    if not violations:
        out2 = common.sim_call(work, world.CANONICAL_SCHEDULE)
        common.sim_stats(out2, stats)
        stats["executions"] += 1
        d = _diff(ref, _outcome(out2))
        if d is not None:
            violations.append({"kind": "repetition_dependent_result",
                               "msg": f"repeating the canonical execution in the same process changes the result: {d}",
                               "sig": {"what": d.split(":")[0]}, "canonical": ref, "got": _outcome(out2)})
    # fidelity probe: the real ThreadPoolExecutor (schedule not controlled) must agree with the canonical simulated run
    if not violations and case.get("real_pool_probe"):
        try:
            real = work()
        except Exception as e:  # noqa: BLE001
            real = {"error": type(e).__name__}
        stats["real_pool_probes"] = 1
        d = _diff(ref, real)
        if d is not None:
            violations.append({"kind": "real_pool_differs",
                               "msg": f"the real ThreadPoolExecutor gives a result different from the canonical simulated execution: {d}",
                               "sig": {"what": d.split(":")[0]}, "canonical": ref, "got": real})
    canon_d = digest(ref)
    if case.get("expect_canonical_digest") is not None and canon_d != case["expect_canonical_digest"]:
        violations.append({"kind": "hash_seed_dependent_result",
                           "msg": f"canonical digest under PYTHONHASHSEED={os.environ.get('PYTHONHASHSEED')} is {canon_d}, "
                                  f"expected {case['expect_canonical_digest']} (obtained under the batch's hash seed)",
                           "sig": {"what": "hash seed"}})
    return {"violations": violations, "stats": stats, "keys": keys, "digest": canon_d,
            "record": canon_d, "event_digest": digest([ref, events, [v["kind"] for v in violations]]),
            "sample": {"scenario": scn, "schedules": case["schedules"][:2], "canonical_result": ref}}


def shrink_candidates(case, violation):
    if violation["kind"] == "schedule_dependent_result":
        i = violation.get("schedule_index", 0)
        if len(case["schedules"]) > 1 and i < len(case["schedules"]):
            c = copy.deepcopy(case)
            c["schedules"] = [case["schedules"][i]]
            yield c
            return
    for s in common.shrink_gamma_scenario(case["scenario"]):
        c = copy.deepcopy(case)
        c["scenario"] = s
        yield c
    if case.get("with_cat", True):
        c = copy.deepcopy(case)
        c["with_cat"] = False
        yield c
    if len(case["schedules"]) == 1:
        sch = case["schedules"][0]
        if sch["policy"].get("policy") != "explicit" and violation.get("explicit_switches") is not None:
            c = copy.deepcopy(case)
            c["schedules"] = [dict(sch, policy={"policy": "explicit", "switches": violation["explicit_switches"]})]
            yield c
        for s in common.shrink_schedule(sch):
            c = copy.deepcopy(case)
            c["schedules"] = [s]
            yield c


# -- hash-seed phase -----------------------------------------------------------
_HASH_PROCS = []


def warmup(tier, seed):
    """Start the other-hash-seed interpreters before forking the batch workers."""
    cfg = TIERS[tier]
    for hs in cfg["hash_seeds"]:
        env = dict(os.environ)
        env["PYTHONHASHSEED"] = str(hs)
        env["VERIF_NO_REEXEC"] = "1"
        p = subprocess.Popen([sys.executable, "-m", "checks.c06_hashprobe", str(seed), tier, str(cfg["hash_runs"])],
                             cwd=os.path.dirname(os.path.dirname(os.path.abspath(__file__))),
                             env=env, stdout=subprocess.PIPE, stderr=subprocess.DEVNULL)
        _HASH_PROCS.append((hs, p))


def finalize(agg, tier, verif_seed):
    res = {"evidence": {}, "violations": [], "harness_errors": []}
    compared = 0
    per_seed = {}
    for hs, p in _HASH_PROCS:
        try:
            outb, _ = p.communicate(timeout=600)
            lines = [l for l in outb.decode().splitlines() if l.startswith("HASHPROBE ")]
            data = json.loads(lines[-1][len("HASHPROBE "):])
        except Exception as e:  # noqa: BLE001
            res["harness_errors"].append({"seed": None, "idx": None, "error": f"hash-seed child {hs} failed: {e!r}"})
            continue
        n = 0
        for idx_s, dg in data["digests"].items():
            idx = int(idx_s)
            mine = agg.records.get(idx)
            if mine is None:
                continue
            n += 1
            if mine != dg:
                seed = mix(verif_seed, f"{ID}:{idx}")
                case = gen(Choices(seed), tier)
                # replay: same case in an interpreter started with that hash seed; its canonical digest must
                # equal the one obtained under the batch's hash seed
                case["expect_canonical_digest"] = mine
                case["schedules"] = []
                case["real_pool_probe"] = False
                if str(data["hashseed"]).isdigit():
                    case["replay_env"] = {"PYTHONHASHSEED": str(data["hashseed"]), "VERIF_NO_REEXEC": "1"}
                res["violations"].append(({"kind": "hash_seed_dependent_result",
                                           "msg": f"canonical digest of run {idx} under PYTHONHASHSEED={data['hashseed']} "
                                                  f"differs from the one under PYTHONHASHSEED={os.environ.get('PYTHONHASHSEED')}",
                                           "sig": {"what": "hash seed"}}, case, seed))
        per_seed[str(data["hashseed"])] = n
        compared += n
    res["evidence"]["hash_seed_comparisons"] = per_seed
    res["evidence"]["fault_kinds_fired_extra"] = {"hash_seed": compared}
    _HASH_PROCS.clear()
    return res



"""Shared machinery of the alignment checks (C01, C02, C08, C11)."""
import copy

import numpy as np

from refmodel import align_oracle as ao
from simkit import world
from simkit.solverfault import SolverFaults, cbc_available
from . import common

CONFIGS = [{"mode": "none", "fail": None}, {"mode": "import_error", "fail": None},
           {"mode": "solver_error", "fail": "all"}]


def configs_for(case, limit=8000):
    """Solver configurations to run: all three, except on very large candidate sets where only the CBC
    configuration is run - GLPK_MI (the fallback) can need minutes on 10^4 boolean variables, which is a
    cost of the fallback solver, not something these properties speak about."""
    prod = 1
    for _, u in case["continuum"]["annotators"]:
        prod *= len(u) + 1
    return CONFIGS if prod <= limit else CONFIGS[:1]


def gen_align_case(ch, *, max_annot=4, max_units=4, max_total=12, max_candidates=3000, allow_none_label=False,
                   families=None, min_annot=2):
    for _ in range(50):
        labelset = ch.choice(["alpha", "alpha", "words", "num"])
        cont = world.gen_continuum(ch.sub(f"cont{_}"), min_annot=min_annot, max_annot=max_annot, max_units=max_units,
                                   labelset=labelset, allow_none_label=allow_none_label, families=families)
        total = world.continuum_units(cont)
        cands = 1
        for _, u in cont["annotators"]:
            cands *= len(u) + 1
        if 1 <= total <= max_total and cands <= max_candidates:
            break
    has_none = any(l is None for _, us in cont["annotators"] for _, _, l in us)
    if has_none:
        # the unit-to-unit function of category-table dissimilarities is undefined on unlabelled units
        dis = world.gen_dissim(ch.sub("dissim"), labelset, kinds=["abs"])
    else:
        dis = world.gen_dissim(ch.sub("dissim"), labelset)
    return {"continuum": cont, "dissim": dis}


def call_under(cfg, fn):
    """Call fn() with the given solver-fault configuration installed.
    Returns (value, error, faults)."""
    flt = SolverFaults(cfg["mode"], cfg.get("fail"))
    flt.install()
    try:
        try:
            return fn(), None, flt
        except Exception as e:  # noqa: BLE001
            return None, e, flt
    finally:
        flt.uninstall()


def config_name(cfg):
    return {"none": "cbc", "import_error": "glpk(import_error)", "solver_error": "glpk(solver_error)"}[cfg["mode"]]


def shrink_align_case(case):
    for c in common.shrink_continuum(case["continuum"]):
        s = copy.deepcopy(case)
        s["continuum"] = c
        yield s
    if case["dissim"]["kind"] != "pos":
        s = copy.deepcopy(case)
        s["dissim"] = {"kind": "pos", "delta_empty": case["dissim"]["delta_empty"]}
        yield s
        for k, v in (("alpha", 1.0), ("beta", 1.0), ("cat", "abs")):
            if case["dissim"].get(k) != v:
                s = copy.deepcopy(case)
                s["dissim"][k] = v
                yield s
    if case["dissim"]["delta_empty"] != 1.0:
        s = copy.deepcopy(case)
        s["dissim"]["delta_empty"] = 1.0
        yield s

"""C08 - alignment results do not depend on the MIP back-end (fault enumeration).

Part A (direct calls): best and soft alignment of a seeded continuum under the
three solver configurations {CBC, GLPK via ImportError, GLPK via SolverError}:
each result must be a partition / cover of the continuum, and the disorders
must agree across configurations up to rounding (ties may produce different
alignments, so only disorders are compared).

Part B (whole gamma computation in the simulated pool): the fault-free run
performs K CBC solves; then, for EVERY k in 0..K-1, the run is repeated with
exactly the k-th CBC solve failing (plus all-fail, ImportError, and one seeded
random subset).  Same NumPy seed => same samples => every disorder (observed
and each chance disorder, in order) must equal the fault-free one up to
rounding, every alignment returned inside the pool must be a partition /
cover, and the wrapper on cvxpy.Problem.solve must have seen the GLPK_MI solve
that follows each injected failure (reach probe).
"""
import copy

import numpy as np

from refmodel import align_oracle as ao
from simkit import world
from simkit.monitor import AlignmentMonitor
from simkit.runner import digest
from simkit.solverfault import cbc_available
from . import align_common as ac
from . import common

ID = "C08"
LEVEL = "fault_enumeration"
TIERS = {
    "quick": {"runs": 900, "wall": 70, "run_timeout": 240, "shrink_s": 60, "p_gamma": 0.4, "big": 0.3},
    "thorough": {"runs": 40000, "wall": 1100, "run_timeout": 400, "shrink_s": 180, "p_gamma": 0.5, "big": 0.5},
}
RULE = ("case = seeded continuum (2..5 annotators; small to medium: up to 3x12 / 2x30 units) x dissimilarity; part A: best and soft "
        "alignment under {CBC, GLPK/ImportError, GLPK/SolverError}; part B (a fraction of cases): gamma computation (exact/fast/soft, "
        "n_samples<=5) in the simulated pool, single-failure placements enumerated exhaustively over the K CBC solves of the "
        "fault-free run + all-fail + ImportError + one random subset. distinct_nontrivial = distinct (case, fault plan) pairs in "
        "which an injected failure was followed by an observed GLPK_MI solve")
ASSUMPTIONS = [
    "fault kinds: ImportError on 'import cylp' and cvxpy.SolverError from the CBC solve - the two conditions the library's except clause names",
    "single-failure placements are enumerated exhaustively per scenario; multi-failure subsets are sampled",
    "if CBC is not installed in the environment the 'none' configuration is reported unavailable, not faked",
]
COMPONENTS = {"real": common.REAL_COMPONENTS, "stub": common.STUB_COMPONENTS}


def gen(ch, tier):
    cfg = TIERS[tier]
    if ch.coin(cfg["big"]):
        shape = ch.choice([(2, 30), (3, 12), (3, 8), (4, 6), (5, 4)])
        case = ac.gen_align_case(ch, min_annot=shape[0], max_annot=shape[0], max_units=shape[1], max_total=80,
                                 max_candidates=40000, families=[("jitter", 5), ("random", 2), ("grid", 2), ("staircase", 1)])
    else:
        case = ac.gen_align_case(ch, max_annot=ch.choice([2, 3, 4, 5]), max_units=5, max_total=16, max_candidates=8000)
    if ch.coin(cfg["p_gamma"]) and world.continuum_units(case["continuum"]) <= 24:
        g = ch.sub("gamma")
        case["gamma"] = {"sampler": g.choice(["stat", "shuffle_int", "shuffle_float"]),
                         "mode": g.choice(["exact", "fast", "soft"]), "n_samples": g.randint(1, 5),
                         "np_seed": g.randint(0, 2**31 - 1),
                         "subset": sorted(set(g.randint(0, 8) for _ in range(g.randint(2, 4))))}
        case["schedule"] = world.gen_schedule(ch.sub("sched"))
    return case


def _gamma_run(case, continuum, dissim, faults):
    g = case["gamma"]
    scn = {"n_samples": g["n_samples"], "precision": None, "mode": g["mode"], "gt": None}
    bad = []

    def on_return(rec):
        if rec.method == "get_fast_alignment":
            errs = ao.structure_errors(rec.result, rec.receiver)
        else:
            errs = ao.structure_errors(rec.result, rec.receiver, cover=rec.method == "get_best_soft_alignment")
        if errs:
            bad.append(f"{rec.method}: " + "; ".join(errs[:2]))

    def work():
        np.random.seed(g["np_seed"])
        sampler = world.build_sampler(g["sampler"])
        res = continuum.compute_gamma(**world.gamma_kwargs(scn, dissim, sampler))
        return [float(res.observed_disorder)] + [float(a.disorder) for a in res.chance_alignments]

    with AlignmentMonitor(on_return=on_return):
        out = common.sim_call(work, case["schedule"], faults=faults)
    return out, bad


def run(case):
    continuum = world.build_continuum(case["continuum"])
    dissim = world.build_dissim(case["dissim"])
    stats, violations = {}, []
    keys = {"cases": [digest([case["continuum"], case["dissim"]])], "nontrivial": [], "fault_plans": []}
    cd = keys["cases"][0]
    have_cbc = cbc_available()
    if not have_cbc:
        stats["cbc_unavailable"] = 1
    # ---- part A --------------------------------------------------------------
    vals = {}
    for what, fn, cover in (("best", lambda: continuum.get_best_alignment(dissim), False),
                            ("soft", lambda: continuum.get_best_soft_alignment(dissim), True)):
        per = {}
        for cfg in ac.configs_for(case):
            name = ac.config_name(cfg)
            al, err, flt = ac.call_under(cfg, fn)
            if cfg["mode"] != "none":
                stats["fault_cbc_" + cfg["mode"]] = stats.get("fault_cbc_" + cfg["mode"], 0) + flt.fired
                if flt.fired:
                    keys["nontrivial"].append(digest([cd, what, cfg]))
                    keys["fault_plans"].append(digest([what, cfg]))
                if flt.glpk_calls == 0 and err is None:
                    stats["fallback_not_observed"] = stats.get("fallback_not_observed", 0) + 1
            elif have_cbc and flt.cbc_calls == 0 and err is None:
                stats["cbc_not_observed"] = stats.get("cbc_not_observed", 0) + 1
            if err is not None:
                violations.append({"kind": "raises", "msg": f"[{what}/{name}] raised {type(err).__name__}: {err}",
                                   "sig": {"exc": type(err).__name__, "config": cfg["mode"], "what": what}})
                continue
            errs = ao.structure_errors(al, continuum, cover=cover)
            if errs:
                violations.append({"kind": "invalid_alignment", "msg": f"[{what}/{name}] " + "; ".join(errs[:3]),
                                   "sig": {"config": cfg["mode"], "what": what}})
                continue
            per[name] = float(al.disorder)
        vals[what] = per
        if per:
            ref_name = next(iter(per))
            for name, v in per.items():
                if not ao.close(v, per[ref_name]):
                    violations.append({"kind": "backend_dependent_disorder",
                                       "msg": f"[{what}] disorder under {name} is {v!r} but {per[ref_name]!r} under {ref_name}",
                                       "sig": {"what": what}})
    stats["alignments"] = sum(len(p) for p in vals.values())
    # ---- part B --------------------------------------------------------------
    gvals = None
    if "gamma" in case and not violations:
        out0, bad0 = _gamma_run(case, continuum, dissim, {"mode": "none", "fail": None})
        common.sim_stats(out0, stats)
        stats["gamma_scenarios"] = 1
        if out0.error is not None:
            # the fault-free run itself fails: not this property's business unless faults change it
            ref = ("error", type(out0.error).__name__)
        else:
            ref = out0.value
        K = out0.faults.cbc_calls
        plans = [{"mode": "solver_error", "fail": [k]} for k in range(K)]
        plans += [{"mode": "solver_error", "fail": "all"}, {"mode": "import_error", "fail": None}]
        sub = [k for k in case["gamma"].get("subset", []) if k < K]
        if len(sub) >= 2:
            plans.append({"mode": "solver_error", "fail": sub})
        stats["placements_enumerated"] = K
        gvals = {"K": K, "ref": ref if isinstance(ref, tuple) else len(ref)}
        for b in bad0:
            violations.append({"kind": "invalid_alignment", "msg": f"[gamma/fault-free] {b}", "sig": {"what": "pooled"}})
        for plan in plans:
            out, bad = _gamma_run(case, continuum, dissim, plan)
            common.sim_stats(out, stats)
            stats["gamma_fault_runs"] = stats.get("gamma_fault_runs", 0) + 1
            if out.faults.fired:
                keys["nontrivial"].append(digest([cd, case["gamma"], plan]))
                keys["fault_plans"].append(digest([case["gamma"]["mode"], plan]))
            if plan["mode"] == "solver_error" and plan["fail"] != "all" and out.faults.injected != out.faults.fired \
                    and out.error is None:
                stats["injected_without_fallback"] = stats.get("injected_without_fallback", 0) + 1
            for b in bad:
                violations.append({"kind": "invalid_alignment", "msg": f"[gamma/{plan}] {b}",
                                   "sig": {"what": "pooled", "config": plan["mode"]}})
            got = ("error", type(out.error).__name__) if out.error is not None else out.value
            if isinstance(ref, tuple) or isinstance(got, tuple):
                if ref != got:
                    violations.append({"kind": "backend_dependent_outcome",
                                       "msg": f"[gamma] fault-free outcome {ref if isinstance(ref, tuple) else 'value'} but "
                                              f"{got if isinstance(got, tuple) else 'value'} under fault plan {plan}: {out.error!r}",
                                       "sig": {"config": plan["mode"]}, "plan": plan})
                continue
            if len(got) != len(ref) or any(not ao.close(a, b) for a, b in zip(got, ref)):
                i = next((i for i, (a, b) in enumerate(zip(got, ref)) if not ao.close(a, b)), -1)
                violations.append({"kind": "backend_dependent_disorder",
                                   "msg": f"[gamma/{case['gamma']['mode']}] fault plan {plan}: disorder #{i} "
                                          f"({'observed' if i == 0 else 'chance'}) is {got[i] if i >= 0 else len(got)!r}, "
                                          f"fault-free run gives {ref[i] if i >= 0 else len(ref)!r}",
                                   "sig": {"what": "pooled"}, "plan": plan})
            if len(violations) > 3:
                break
    return {"violations": violations, "stats": stats, "keys": keys,
            "digest": digest([vals, gvals, [v["kind"] for v in violations]]),
            "sample": {"case": {k: v for k, v in case.items()}, "disorders": vals, "gamma_part": gvals}}


def shrink_candidates(case, violation):
    if "gamma" in case and violation.get("sig", {}).get("what") != "pooled" and violation["kind"] != "backend_dependent_outcome":
        c = copy.deepcopy(case)
        c.pop("gamma")
        c.pop("schedule", None)
        yield c
    yield from ac.shrink_align_case(case)
    if "gamma" in case:
        g = case["gamma"]
        if g["n_samples"] > 1:
            c = copy.deepcopy(case)
            c["gamma"]["n_samples"] = g["n_samples"] // 2
            yield c
        if g["mode"] != "exact":
            c = copy.deepcopy(case)
            c["gamma"]["mode"] = "exact"
            yield c
        for s in common.shrink_schedule(case["schedule"]):
            c = copy.deepcopy(case)
            c["schedule"] = s
            yield c

"""C14 - computations never modify their inputs; derived continua are independent.

A seeded *world history*: a world holds continua, dissimilarities, samplers
and shuffling tools.  Operations are

* computations  - best / soft / fast alignment, compute_disorder, compute_gamma
  in each mode IN THE SIMULATED POOL with line-level pre-emption (plus
  gamma_cat / gamma_k on its result), sampler init_sampling and draws,
  CorpusShufflingTool construction (optionally with extra categories),
  corpus_from_reference, corpus_shuffle and each single *_shuffle;
* derivations   - copy, merge(in_place=False), +, [] access, sampler draws,
  shuffling-tool corpora: the result becomes a new world object;
* mutations     - add a unit with a NEW label, remove a unit, add an
  annotator, applied to an arbitrary world continuum.

Before the history starts and after every operation every world object is
snapshotted (annotators, units, category list, bounds, best_window_size; for
dissimilarities delta_empty, alpha, beta, categories, matrix bytes, component
identities).  Oracle: an operation may change only its designated target (the
continuum a mutation / a *_shuffle is applied to; best_window_size of the
input of a fast-mode gamma) - every other snapshot must be unchanged.
"""
import copy

import numpy as np
from pyannote.core import Segment
from sortedcontainers import SortedSet

import pygamma_agreement as pa
from simkit import world
from simkit.adversary import Adversary
from simkit.choices import Choices
from simkit.rngseam import RngSeam
from simkit.runner import digest
from . import common

ID = "C14"
LEVEL = "exploration"
TIERS = {
    "quick": {"runs": 1600, "wall": 70, "run_timeout": 240, "shrink_s": 60, "shrink_tries": 400},
    "thorough": {"runs": 55000, "wall": 1100, "run_timeout": 400, "shrink_s": 180, "shrink_tries": 1500},
}
RULE = ("case = seeded world history of 4..22 operations (computations incl. pooled gamma under a seeded line-level schedule, "
        "derivations, mutations with new labels) over <= 7 continua, 3 dissimilarities, samplers and shuffling tools; snapshots of "
        "every world object compared after every operation. distinct_nontrivial = distinct (operation kind, kind of the previous "
        "operation, origin of the touched continuum) triples executed without being skipped")
ASSUMPTIONS = [
    "only the continuum / dissimilarity arguments are protected by the property; samplers and tools are stateful by design",
    "documented exception: fast-mode gamma records best_window_size on its input continuum",
    "an operation that raises is not judged for its result, but the snapshots are still compared",
]
COMPONENTS = {"real": common.REAL_COMPONENTS, "stub": common.STUB_COMPONENTS}
MAX_CONT = 7
NEW_LABELS = ["zz_new0", "zz_new1", "zz_new2"]


def _ref_spec(ch):
    labels = world.LABELS_ALPHA
    units = []
    t = 0.0
    for _ in range(ch.randint(2, 6)):
        t += ch.uniform(0.0, 3.0)
        d = ch.uniform(1.0, 5.0)
        units.append([world.r3(t), world.r3(t + d), ch.choice(labels)])
        t += d
    return {"annotators": [["Ref", units]], "family": "reference", "labelset": "alpha"}


def gen(ch, tier):
    ops = [["cont", world.gen_continuum(ch.sub("c0"), max_annot=3, max_units=5, labelset="alpha", allow_empty_annot=False,
                                        min_total_units=2)],
           ["cont", _ref_spec(ch.sub("r0"))]]
    dissims = [world.gen_dissim(ch.sub(f"d{i}"), "alpha", kinds=["abs", "lev", "ord"]) for i in range(3)]
    dissims[0] = {"kind": "comb", "alpha": 1.0, "beta": 1.0, "delta_empty": 1.0, "cat": "abs", "labelset": "alpha"}
    n = ch.randint(4, 22)
    for i in range(n):
        k = ch.weighted([("align", 8), ("disorder", 3), ("gamma", 8), ("sampler_init", 5), ("draw", 6), ("cst", 8),
                         ("cst_corpus", 7), ("cst_from_ref", 5), ("cst_shuffle", 6), ("copy", 5), ("merge", 4), ("plus", 2),
                         ("getitem", 2), ("mutate_add", 10), ("mutate_remove", 4), ("mutate_annotator", 2), ("cont", 2), ("ref", 2)])
        ci, cj, di = ch.randint(0, MAX_CONT - 1), ch.randint(0, MAX_CONT - 1), ch.randint(0, 2)
        if k == "cont":
            spec = world.gen_continuum(ch.sub(f"c{i}"), max_annot=3, max_units=5, labelset="alpha",
                                       allow_empty_annot=False, min_total_units=2)
            if ch.coin(0.3):
                # an annotator declared without any unit (merges / copies must not share or lose it)
                spec["annotators"].append([ch.choice(["Yan", "Zed"]), []])
            ops.append(["cont", spec])
        elif k == "ref":
            ops.append(["cont", _ref_spec(ch.sub(f"r{i}"))])
        elif k == "align":
            ops.append(["align", ci, di, ch.choice(["best", "soft", "fast1", "fast2"])])
        elif k == "disorder":
            ops.append(["disorder", ci, di])
        elif k == "gamma":
            ops.append(["gamma", ci, di, ch.choice(["exact", "fast", "soft"]), ch.choice(["stat", "shuffle_int", "shuffle_float"]),
                        ch.randint(1, 4), ch.randint(0, 2**31 - 1), world.gen_schedule(ch.sub(f"s{i}")), ch.coin(0.5)])
        elif k == "sampler_init":
            ops.append(["sampler_init", ci, ch.choice(["stat", "shuffle_int", "shuffle_float"]), ch.coin(0.3), ch.randint(0, 2**31 - 1)])
        elif k == "draw":
            ops.append(["draw", ch.randint(0, 5), ch.randint(0, 2**31 - 1)])
        elif k == "cst":
            ops.append(["cst", ci, ch.choice([0.0, 0.3, 0.7, 1.0]), ch.choice([None, None, ["zz_extra"], ["a", "zz_extra"]])])
        elif k == "cst_corpus":
            ops.append(["cst_corpus", ch.randint(0, 5), ch.choice([2, 3, ["x", "y"]]), [ch.coin(0.5) for _ in range(6)],
                        ch.randint(0, 2**31 - 1)])
        elif k == "cst_from_ref":
            ops.append(["cst_from_ref", ch.randint(0, 5), ch.choice([1, 2, 3])])
        elif k == "cst_shuffle":
            ops.append(["cst_shuffle", ch.randint(0, 5), ci, ch.choice(["shift", "false_neg", "false_pos", "category", "splits"]),
                        ch.randint(0, 2**31 - 1)])
        elif k in ("copy", "getitem"):
            ops.append([k, ci])
        elif k in ("merge", "plus"):
            ops.append([k, ci, cj])
        elif k == "mutate_add":
            ops.append(["mutate_add", ci, ch.randint(0, 5), [world.r3(ch.uniform(0, 20)), world.r3(ch.uniform(0.5, 4))],
                        ch.choice(NEW_LABELS)])
        elif k == "mutate_remove":
            ops.append(["mutate_remove", ci, ch.randint(0, 10)])
        elif k == "mutate_annotator":
            ops.append(["mutate_annotator", ci, ch.choice(["Zed", "Ann", "New"])])
    return {"ops": ops, "dissims": dissims}


def snap_cont(c):
    return (tuple(c.annotators),
            tuple((a, (u.segment.start, u.segment.end, u.annotation)) for a, u in c),
            tuple(c.categories), tuple(c.bounds), float(c.best_window_size))


FIELDS = ("annotators", "units", "categories", "bounds", "best_window_size")


def snap_dissim(d):
    parts = [type(d).__name__, float(d.delta_empty), None if d.categories is None else tuple(d.categories), id(d.d_mat)]
    if hasattr(d, "_matrix"):
        parts.append(bytes(np.asarray(d._matrix).tobytes()))
    if isinstance(d, pa.CombinedCategoricalDissimilarity):
        parts += [float(d.alpha), float(d.beta), id(d.positional_dissim), id(d.categorical_dissim),
                  snap_dissim(d.positional_dissim), snap_dissim(d.categorical_dissim)]
    return tuple(parts)


class World:
    def __init__(self, dissim_specs):
        self.conts = []       # [continuum, origin]
        self.dissims = [world.build_dissim(s) for s in dissim_specs]
        self.samplers = []
        self.tools = []       # [tool, reference index]
        self.snap_c = []
        self.snap_d = [snap_dissim(d) for d in self.dissims]

    def add_cont(self, c, origin):
        if len(self.conts) < MAX_CONT:
            self.conts.append([c, origin])
            self.snap_c.append(snap_cont(c))
            return len(self.conts) - 1
        return None


def run(case):
    w = World(case["dissims"])
    stats = {"ops": 0}
    keys = {"nontrivial": [], "op_kinds": []}
    violation = None
    prev_kind = "start"
    step = -1
    for step, op in enumerate(case["ops"]):
        k = op[0]
        targets = set()          # indices of continua this op may change
        bws_ok = set()           # indices whose best_window_size may change
        touched_origin = "-"
        skipped = False
        try:
            if k == "cont":
                w.add_cont(world.build_continuum(op[1]), "built:" + op[1]["family"])
            elif not w.conts:
                skipped = True
            elif k in ("align", "disorder"):
                c, origin = w.conts[op[1] % len(w.conts)]
                touched_origin = origin
                d = w.dissims[op[2]]
                if len(c.annotators) < 2 or not c:
                    skipped = True
                else:
                    mode = op[3] if k == "align" else "best"

                    def do_align():
                        if mode == "best":
                            al = c.get_best_alignment(d)
                        elif mode == "soft":
                            al = c.get_best_soft_alignment(d)
                        else:
                            al = c.get_fast_alignment(d, int(mode[-1]))
                        if k == "disorder":
                            al.compute_disorder(d)
                    # under the simulator with an observer thread: the input must look unchanged at every instant
                    c_before, d_before = snap_cont(c), snap_dissim(d)
                    transient = []

                    def watch():
                        now = snap_cont(c)
                        if now != c_before and not transient:
                            transient.append("continuum: " + ",".join(FIELDS[j] for j in range(5) if now[j] != c_before[j]))
                        if snap_dissim(d) != d_before and not transient:
                            transient.append("dissimilarity")
                        stats["watcher_observations"] = stats.get("watcher_observations", 0) + 1
                    out = common.sim_call(do_align, {"workers": 1, "policy": {"policy": "random", "seed": step * 7919 + op[1],
                                                                              "p_line": 0.05, "p_coarse": 0.5},
                                                     "trace_lines": True}, watcher=watch)
                    common.sim_stats(out, stats)
                    if transient:
                        violation = {"kind": "input_modified_during_computation",
                                     "msg": f"step {step} {op[:4]}: an observer thread saw the input {transient[0]} changed while the "
                                            f"{mode} alignment was being computed (it may have been restored afterwards)",
                                     "sig": {"op": k, "what": transient[0].split(":")[0]}, "step": step}
                    if out.error is not None:
                        raise out.error
            elif k == "gamma":
                idx = op[1] % len(w.conts)
                c, origin = w.conts[idx]
                touched_origin = origin
                d = w.dissims[op[2]]
                if len(c.annotators) < 2 or not c or c.num_units > 18:
                    skipped = True
                else:
                    mode, smp, n, seed, sch, with_cat = op[3:9]
                    if mode == "fast":
                        bws_ok.add(idx)

                    def work():
                        np.random.seed(seed)
                        g = c.compute_gamma(dissimilarity=d, n_samples=n, sampler=world.build_sampler(smp),
                                            fast=mode == "fast", soft=mode == "soft")
                        if with_cat:
                            g.gamma_cat
                            for cat in list(c.categories)[:2]:
                                g.gamma_k(cat)
                        return g
                    # observer thread: the inputs must look unchanged at EVERY instant of the pooled computation,
                    # not only once it has returned (a job that modifies and restores its input is invisible afterwards)
                    c_before, d_before = snap_cont(c), snap_dissim(d)
                    transient = []

                    def watch():
                        now = snap_cont(c)
                        if now[:4] != c_before[:4] and not transient:
                            transient.append("continuum: " + ",".join(FIELDS[j] for j in range(4) if now[j] != c_before[j]))
                        if snap_dissim(d) != d_before and not transient:
                            transient.append("dissimilarity")
                        stats["watcher_observations"] = stats.get("watcher_observations", 0) + 1
                    out = common.sim_call(work, sch, watcher=watch if op[8] or True else None)
                    common.sim_stats(out, stats)
                    if transient:
                        violation = {"kind": "input_modified_during_computation",
                                     "msg": f"step {step} {op[:6]}: an observer thread saw the input {transient[0]} changed while "
                                            f"compute_gamma was running in the pool (it may have been restored afterwards)",
                                     "sig": {"op": k, "what": transient[0].split(":")[0]}, "step": step}
                    if out.error is not None:
                        stats["op_raised"] = stats.get("op_raised", 0) + 1
                    else:
                        # chance samples are derived continua: register one
                        if out.value.chance_alignments:
                            w.add_cont(out.value.chance_alignments[0].continuum, "gamma_sample:" + smp)
            elif k == "sampler_init":
                idx = op[1] % len(w.conts)
                c, origin = w.conts[idx]
                touched_origin = origin
                if not c:
                    skipped = True
                else:
                    s = world.build_sampler(op[2])
                    gt = None
                    if op[3] and len(c.annotators) >= 3:
                        gt = list(c.annotators)[:2]
                    np.random.seed(op[4])
                    s.init_sampling(c, gt)
                    w.samplers.append([s, idx, op[2]])
            elif k == "draw":
                if not w.samplers:
                    skipped = True
                else:
                    s, idx, kind = w.samplers[op[1] % len(w.samplers)]
                    touched_origin = w.conts[idx][1]
                    ref_c = w.conts[idx][0]
                    if sum(len(ref_c._annotations[a]) for a in s._ground_truth_annotators if a in ref_c._annotations) == 0:
                        # the reference was mutated after init_sampling and its ground-truth annotators hold no unit any
                        # more: no non-empty sample exists (the shuffle sampler would retry forever) - outside the property
                        stats["ops_skipped"] = stats.get("ops_skipped", 0) + 1
                        continue
                    np.random.seed(op[2])
                    # every other draw goes through the RNG seam with an adversary returning legal extremes
                    # (pivot at a bound, zero counts ...): rare draws are where samples may end up sharing state
                    adv = Adversary(Choices(op[2]), 0.5) if op[2] % 2 else None
                    with RngSeam(injector=adv, keep_log=False) as seam:
                        sample = s.sample_from_continuum
                    if adv is not None:
                        stats["fault_rng_extreme"] = stats.get("fault_rng_extreme", 0) + sum(seam.injected.values())
                    w.add_cont(sample, "draw:" + kind)
            elif k == "cst":
                idx = op[1] % len(w.conts)
                c, origin = w.conts[idx]
                touched_origin = origin
                if len(c.annotators) == 0 or len(c[c.annotators[0]]) == 0:
                    skipped = True
                else:
                    w.tools.append([pa.CorpusShufflingTool(op[2], c, op[3]), idx])
            elif k in ("cst_corpus", "cst_from_ref", "cst_shuffle"):
                if not w.tools:
                    skipped = True
                else:
                    tool, ridx = w.tools[op[1] % len(w.tools)]
                    touched_origin = w.conts[ridx][1]
                    if k == "cst_corpus":
                        np.random.seed(op[4])
                        f = op[3]
                        names = op[2]
                        w.add_cont(tool.corpus_shuffle(names, shift=f[0], false_pos=f[1], false_neg=f[2], split=f[3],
                                                       cat_shuffle=f[4], include_ref=f[5] and "Ref" not in (names if isinstance(names, list) else [])),
                                   "cst_corpus")
                    elif k == "cst_from_ref":
                        w.add_cont(tool.corpus_from_reference(op[2]), "cst_from_ref")
                    else:
                        cands = [i for i, (cc, o) in enumerate(w.conts) if o in ("cst_corpus", "cst_from_ref")]
                        if not cands:
                            skipped = True
                        else:
                            ti = cands[op[2] % len(cands)]
                            targets.add(ti)
                            np.random.seed(op[4])
                            corpus = w.conts[ti][0]
                            getattr(tool, {"shift": "shift_shuffle", "false_neg": "false_neg_shuffle",
                                           "false_pos": "false_pos_shuffle", "category": "category_shuffle",
                                           "splits": "splits_shuffle"}[op[3]])(corpus)
            elif k == "copy":
                c, origin = w.conts[op[1] % len(w.conts)]
                touched_origin = origin
                w.add_cont(c.copy(), "copy")
            elif k in ("merge", "plus"):
                c, origin = w.conts[op[1] % len(w.conts)]
                o2 = w.conts[op[2] % len(w.conts)][0]
                touched_origin = origin
                w.add_cont((c + o2) if k == "plus" else c.merge(o2, in_place=False), "merge")
            elif k == "getitem":
                c, origin = w.conts[op[1] % len(w.conts)]
                touched_origin = origin
                if len(c.annotators):
                    got = c[c.annotators[0]]
                    got.clear()
                    got.add(pa.Unit(Segment(100, 101), "zz_item"))
            elif k == "mutate_add":
                idx = op[1] % len(w.conts)
                c, origin = w.conts[idx]
                touched_origin = origin
                targets.add(idx)
                ann = list(c.annotators)
                name = ann[op[2] % len(ann)] if ann else "Ann"
                c.add(name, Segment(op[3][0], op[3][0] + op[3][1]), op[4])
            elif k == "mutate_remove":
                idx = op[1] % len(w.conts)
                c, origin = w.conts[idx]
                touched_origin = origin
                units = list(c)
                if len(units) <= 1:
                    skipped = True
                else:
                    targets.add(idx)
                    a, u = units[op[2] % len(units)]
                    c.remove(a, u)
            elif k == "mutate_annotator":
                idx = op[1] % len(w.conts)
                c, origin = w.conts[idx]
                touched_origin = origin
                targets.add(idx)
                c.add_annotator(op[2])
        except Exception as e:  # noqa: BLE001 - not judged; snapshots still are
            stats["op_raised"] = stats.get("op_raised", 0) + 1
            stats["raised_" + k] = stats.get("raised_" + k, 0) + 1
        if violation:
            break
        if skipped:
            stats["ops_skipped"] = stats.get("ops_skipped", 0) + 1
        else:
            stats["ops"] += 1
            stats["op_" + k] = stats.get("op_" + k, 0) + 1
            keys["nontrivial"].append(digest([k, prev_kind, touched_origin.split(":")[0]]))
            keys["op_kinds"].append(k)
            prev_kind = k
        # ---- snapshots -------------------------------------------------------------------
        for i, (c, origin) in enumerate(w.conts[:len(w.snap_c)]):
            now = snap_cont(c)
            old = w.snap_c[i]
            if now != old:
                changed = [FIELDS[j] for j in range(5) if now[j] != old[j]]
                allowed = i in targets or (changed == ["best_window_size"] and i in bws_ok)
                if not allowed:
                    role = "input" if k in ("align", "disorder", "gamma", "sampler_init", "draw", "cst", "cst_corpus",
                                            "cst_from_ref", "cst_shuffle", "copy", "merge", "plus", "getitem") else "other"
                    violation = {
                        "kind": "input_modified" if role == "input" else "shared_state",
                        "msg": f"step {step} {op[:4]}: continuum #{i} (origin {origin}) changed in {changed} although the "
                               f"operation's target is {sorted(targets) or 'nothing'}: {old[2] if 'categories' in changed else ''} -> "
                               f"{now[2] if 'categories' in changed else ''}",
                        "sig": {"op": k, "fields": ",".join(changed), "origin": origin.split(":")[0]}, "step": step}
                    break
                w.snap_c[i] = now
        if violation:
            break
        for i, d in enumerate(w.dissims):
            if snap_dissim(d) != w.snap_d[i]:
                violation = {"kind": "dissimilarity_modified", "msg": f"step {step} {op[:4]}: dissimilarity #{i} changed",
                             "sig": {"op": k}, "step": step}
                break
        if violation:
            break
    return {"violations": [violation] if violation else [], "stats": stats, "keys": keys,
            "digest": digest([[snap_cont(c)[:4] for c, _ in w.conts], violation["kind"] if violation else None]),
            "sample": {"ops": [o[:5] if o[0] != "cont" else ["cont", o[1]["family"]] for o in case["ops"][:20]],
                       "dissims": case["dissims"]}}


def shrink_candidates(case, violation):
    ops = case["ops"]
    step = violation.get("step")
    if step is not None and step + 1 < len(ops):
        yield dict(case, ops=ops[:step + 1])
    n = len(ops)
    chunk = max(1, n // 2)
    while chunk >= 1:
        for i in range(0, n, chunk):
            cand = ops[:i] + ops[i + chunk:]
            if cand and len(cand) < n:
                yield dict(case, ops=cand)
        chunk //= 2
    for i, op in enumerate(ops):
        if op[0] == "cont":
            for c in common.shrink_continuum(op[1], min_annot=1):
                cand = copy.deepcopy(ops)
                cand[i] = ["cont", c]
                yield dict(case, ops=cand)

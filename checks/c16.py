"""C16 - shuffle sampler emits wrapped translations with separated pivots.

RNG-seam simulation: ``ShuffleContinuumSampler.sample_from_continuum`` runs
with ``numpy.random`` behind the seam.  Half of the draws of a run use real
seeded values (record mode), the other half an adversary that returns legal
extremes: uniform draws at the ends of the available segment and right next
to an earlier pivot, first / last choice.

For EVERY draw the oracle reconstructs, from the output alone, for each sampled
annotator a ground-truth annotator and a single pivot p such that every unit
is start + p, or - iff start + p > bound_sup - start + p - (bound_sup -
bound_inf), with identical count, durations and labels; p within the bounds
(after truncation in integer mode) and integral in integer mode; as many
sampled annotators as ground-truth annotators; non-empty.  When the continuum
is long enough (length > k * average unit length + 2, which guarantees that
the pool of admissible positions cannot run dry) all pivots of one sample must
be pairwise >= average unit length / 2 apart.
"""
import copy
import math

import numpy as np

import pygamma_agreement as pa
from simkit import world
from simkit.adversary import Adversary
from simkit.choices import Choices
from simkit.rngseam import RngSeam
from simkit.runner import digest

ID = "C16"
LEVEL = "exploration"
TIERS = {
    "quick": {"runs": 15000, "wall": 60, "run_timeout": 240, "shrink_s": 40, "draws": 40},
    "thorough": {"runs": 450000, "wall": 1000, "run_timeout": 400, "shrink_s": 120, "draws": 60},
}
RULE = ("case = seeded reference continuum (2..5 annotators, 0..8 units each, bound_inf 0 or shifted by reset_bounds, short and long "
        "relative to the unit length) x ground-truth subset x pivot type; N draws per case, alternating real seeded draws and "
        "adversarial legal extremes at the RNG seam; every draw explained by the translation/wrap model. distinct_nontrivial = "
        "distinct (reference, pivot type, ground truth) cases with >= 3 sampled annotators on a long-enough continuum whose "
        "pivot separation was judged")
ASSUMPTIONS = [
    "reconstruction tolerance 1e-9 * (1 + magnitude of the operands)",
    "'long enough' is the sufficient condition length > k*avg_unit_length + 2 (k sampled annotators)",
    "in integer mode the pivot may lie up to 1 below bound_inf (truncation of a value drawn within the bounds)",
]
COMPONENTS = {"real": ["pygamma_agreement.sampler.ShuffleContinuumSampler", "Continuum", "numpy RandomState (record mode)"],
              "stub": ["numpy.random.uniform / choice return values in adversarial draws (legal extremes)"]}


def _gen_reference(ch, n, scale, long_, offset):
    names = world.ANNOTATOR_NAMES[:n]
    labels = world.LABELS_ALPHA
    ann = []
    for nm in names:
        k = ch.randint(0 if n > 2 else 1, 8)
        units = []
        t = offset
        for _ in range(k):
            t += ch.uniform(0.2, 3.0) * scale * (3.0 if long_ else 0.3)
            d = ch.uniform(0.5, 3.0) * scale
            units.append([world.r3(t), world.r3(t + d), ch.choice(labels)])
            t += d * ch.choice([1.0, 1.0, 0.5])
        ann.append([nm, units])
    if sum(len(u) for _, u in ann) == 0:
        ann[0][1].append([1.0, 3.0, "a"])
    return {"annotators": ann, "family": "shuffle_ref", "labelset": "alpha"}


def gen(ch, tier):
    n = ch.choice([2, 3, 3, 4, 5])
    names = world.ANNOTATOR_NAMES[:n]
    labels = world.LABELS_ALPHA
    long_ = ch.coin(0.7)
    scale = ch.choice([1.0, 1.0, 3.0, 10.0])
    ann = []
    # 0: usual; positive: bound_inf may be moved by reset_bounds; negative: the whole timeline lies below zero
    offset = ch.choice([0.0, 0.0, 2.5, 7.0, -40.0, -300.5])
    for nm in names:
        k = ch.randint(0 if n > 2 else 1, 8)
        units = []
        t = offset
        for _ in range(k):
            t += ch.uniform(0.2, 3.0) * scale * (3.0 if long_ else 0.3)
            d = ch.uniform(0.5, 3.0) * scale
            units.append([world.r3(t), world.r3(t + d), ch.choice(labels)])
            t += d * ch.choice([1.0, 1.0, 0.5])
        ann.append([nm, units])
    if sum(len(u) for _, u in ann) == 0:
        ann[0][1].append([1.0, 3.0, "a"])
    gt = None
    if n >= 3 and ch.coin(0.3):
        gt = sorted(ch.sample(names, ch.randint(2, n - 1)))
        if sum(len(u) for nm, u in ann if nm in gt) == 0:
            gt = None
    # history: the same sampler object may have served another reference before (re-initialisation)
    prior = None
    if ch.coin(0.35):
        prior = {"continuum": _gen_reference(ch.sub("prior"), ch.choice([2, 3, 4]), scale * ch.choice([0.05, 0.2, 5.0, 20.0]),
                                             ch.coin(0.7), 0.0), "draws": ch.randint(1, 3)}
    return {"continuum": {"annotators": ann, "family": "shuffle_ref", "labelset": "alpha"}, "prior": prior,
            "reset_bounds": offset > 0 and ch.coin(0.7), "pivot": ch.choice(["int_pivot", "float_pivot"]), "gt": gt,
            "draws": TIERS[tier]["draws"], "np_seed": ch.randint(0, 2**31 - 1), "adv_seed": ch.randint(0, 2**31 - 1),
            "adv_rate": ch.choice([0.1, 0.3, 0.6])}


def tol(*xs):
    return 1e-9 * (1.0 + max(abs(x) for x in xs))


def explain(sample_units, ref_units, lo, hi, int_mode):
    """All pivots p that explain sample_units as the wrapped translation of
    ref_units: list of (pivot, wrapped_count); [(None, 0)] for an empty pair.
    (A pivot at one bound is indistinguishable from the other bound when every
    unit wraps, and identical ground-truth annotators give several candidates,
    hence a list.)"""
    if len(sample_units) != len(ref_units):
        return []
    if not ref_units:
        return [(None, 0)]
    L = hi - lo
    s0 = ref_units[0]
    cands = set()
    for su in sample_units:
        cands.add(su[0] - s0[0])
        cands.add(su[0] - s0[0] + L)
    target = sorted(sample_units)
    found = []
    for p in sorted(cands):
        if int_mode:
            pr = round(p)
            if abs(p - pr) > tol(p, s0[0]):
                continue
            p = float(pr)
        plo = min(lo, math.trunc(lo)) if int_mode else lo
        if p < plo - tol(p, lo) or p > hi + tol(p, hi):
            continue
        img = []
        wrapped = 0
        for (s, e, l) in ref_units:
            if s + p > hi:
                img.append((s + p + lo - hi, e + p + lo - hi, l))
                wrapped += 1
            else:
                img.append((s + p, e + p, l))
        img.sort()
        ok = all(a[2] == b[2] and abs(a[0] - b[0]) <= tol(a[0], b[0], p) and abs(a[1] - b[1]) <= tol(a[1], b[1], p)
                 for a, b in zip(img, target))
        if ok and not any(abs(p - q) <= tol(p, q) for q, _ in found):
            found.append((p, wrapped))
    return found


def best_separation(cand_lists):
    """max over assignments (one candidate pivot per sampled annotator) of the
    minimum pairwise distance; cand_lists: list of lists of pivots."""
    import itertools
    lists = [c[:4] for c in cand_lists if c]
    if len(lists) < 2:
        return None, None
    best, best_ps = -1.0, None
    for combo in itertools.islice(itertools.product(*lists), 4096):
        ps = sorted(combo)
        gap = min(b - a for a, b in zip(ps, ps[1:]))
        if gap > best:
            best, best_ps = gap, ps
    return best, best_ps


def run(case):
    continuum = world.build_continuum(case["continuum"])
    if case.get("reset_bounds"):
        continuum.reset_bounds()
    lo, hi = continuum.bounds
    sampler = pa.ShuffleContinuumSampler(pivot_type=case["pivot"])
    gt = case.get("gt")
    prior_stats = 0
    if case.get("prior"):
        prior_c = world.build_continuum(case["prior"]["continuum"])
        np.random.seed(case["np_seed"] ^ 0x5A5A)
        sampler.init_sampling(prior_c)
        for _ in range(case["prior"]["draws"]):
            try:
                sampler.sample_from_continuum
                prior_stats += 1
            except Exception:  # noqa: BLE001 - judged when it is the main reference of another case
                pass
    sampler.init_sampling(continuum, gt)
    gt_names = gt or list(continuum.annotators)
    k = len(gt_names)
    ref_units = {a: [(u.segment.start, u.segment.end, u.annotation) for u in continuum.iter_annotator(a)] for a in gt_names}
    avg = continuum.avg_length_unit
    dist = avg / 2
    long_enough = (hi - lo) > k * avg + 2.0
    int_mode = case["pivot"] == "int_pivot"
    stats = {"draws": 0, "long_enough_cases": int(long_enough), "annotators_ge3": int(k >= 3),
             "sampler_reused_after_other_reference": int(prior_stats > 0)}
    violations = []
    wrap_seen = False
    adv = Adversary(Choices(case["adv_seed"]), case["adv_rate"])
    np.random.seed(case["np_seed"])
    for i in range(case["draws"]):
        adversarial = i % 2 == 1
        seam = RngSeam(injector=adv if adversarial else None, keep_log=False)
        with seam:
            try:
                sample = sampler.sample_from_continuum
            except Exception as e:  # noqa: BLE001
                violations.append({"kind": "raises", "msg": f"draw #{i} ({'adversarial' if adversarial else 'real'}) raised "
                                                          f"{type(e).__name__}: {e}", "sig": {"exc": type(e).__name__}})
                break
        stats["draws"] += 1
        stats["rng_calls"] = stats.get("rng_calls", 0) + seam.calls
        if adversarial:
            stats["fault_rng_extreme"] = stats.get("fault_rng_extreme", 0) + sum(seam.injected.values())
        mode = "adversarial" if adversarial else "real"
        if not sample:
            violations.append({"kind": "empty_sample", "msg": f"draw #{i} ({mode}) is empty", "sig": {}})
            break
        s_ann = list(sample.annotators)
        if len(s_ann) != k:
            violations.append({"kind": "annotator_count", "msg": f"draw #{i} ({mode}) has {len(s_ann)} annotators, ground truth has {k}",
                               "sig": {}})
            break
        pivot_cands = []
        bad = None
        for sa in s_ann:
            su = [(u.segment.start, u.segment.end, u.annotation) for u in sample.iter_annotator(sa)]
            found = []
            for a in gt_names:
                found.extend(explain(su, ref_units[a], lo, hi, int_mode))
            if not found and int_mode and not long_enough:
                # exhausted pool on a continuum that is not long enough: the documented fallback draws a
                # real-valued pivot; whole-number pivots are only required "as long as the continuum is long enough"
                for a in gt_names:
                    found.extend(explain(su, ref_units[a], lo, hi, False))
                if found:
                    stats["float_pivot_in_int_mode_short_continuum"] = stats.get("float_pivot_in_int_mode_short_continuum", 0) + 1
            if not found:
                bad = (sa, su)
                break
            real = [f for f in found if f[0] is not None]
            if real:
                ps = []
                for pv, _w in real:
                    if not any(abs(pv - q) <= tol(pv, q) for q in ps):
                        ps.append(pv)
                pivot_cands.append(ps)
                if len(ps) > 1:
                    stats["ambiguous_pivots"] = stats.get("ambiguous_pivots", 0) + 1
                w = max(f[1] for f in real)
                if all(f[1] > 0 for f in real):
                    wrap_seen = True
                    stats["wrapped_units"] = stats.get("wrapped_units", 0) + min(f[1] for f in real)
        if bad is not None:
            violations.append({"kind": "not_a_wrapped_translation",
                               "msg": f"draw #{i} ({mode}): units of {bad[0]} = {bad[1][:4]} are not the wrapped translation by a single "
                                      f"{'integer ' if int_mode else ''}pivot within [{lo}, {hi}] of any ground-truth annotator",
                               "sig": {"int": int_mode}})
            break
        if long_enough and len(pivot_cands) >= 2:
            stats["separation_checked"] = stats.get("separation_checked", 0) + 1
            gap, ps = best_separation(pivot_cands)
            if gap is not None and gap < dist - tol(dist, ps[-1]):
                violations.append({"kind": "pivots_too_close",
                                   "msg": f"draw #{i} ({mode}): pivots {ps} have two members {gap!r} apart, less than half the average "
                                          f"unit length {dist!r} (bounds [{lo}, {hi}], {k} annotators, {case['pivot']})",
                                   "sig": {"int": int_mode, "adversarial": adversarial, "within_one": bool(gap > dist - 1.0)}})
                if int_mode and gap > dist - 1.0:
                    # the recorded integer-truncation finding: keep judging the remaining draws of this case
                    if sum(1 for v in violations if v["kind"] == "pivots_too_close") > 1:
                        violations.pop()
                    continue
                break
    if wrap_seen:
        stats["wrap_branch_cases"] = 1
    cd = digest([case["continuum"], case["pivot"], case["gt"], case.get("reset_bounds"), case.get("prior")])
    keys = {"cases": [cd], "nontrivial": [cd] if (k >= 3 and long_enough and stats.get("separation_checked", 0) > 0) else []}
    return {"violations": violations, "stats": stats, "keys": keys,
            "digest": digest([stats["draws"], stats.get("wrapped_units", 0), [v["kind"] for v in violations]]),
            "sample": {"case": case, "bounds": [lo, hi], "avg_unit_length": avg, "long_enough": long_enough}}


def shrink_candidates(case, violation):
    from . import common
    for c in common.shrink_continuum(case["continuum"]):
        names = [n for n, _ in c["annotators"]]
        s = copy.deepcopy(case)
        s["continuum"] = c
        if s.get("gt"):
            s["gt"] = [g for g in s["gt"] if g in names]
            if len(s["gt"]) < 2:
                s["gt"] = None
        yield s
    if case["draws"] > 2:
        s = copy.deepcopy(case)
        s["draws"] = max(2, case["draws"] // 2)
        yield s
    if case.get("gt"):
        s = copy.deepcopy(case)
        s["gt"] = None
        yield s
    if case.get("reset_bounds"):
        s = copy.deepcopy(case)
        s["reset_bounds"] = False
        yield s
    if case.get("prior"):
        s = copy.deepcopy(case)
        s["prior"] = None
        yield s
        for c in common.shrink_continuum(case["prior"]["continuum"]):
            s = copy.deepcopy(case)
            s["prior"]["continuum"] = c
            yield s
    if case["adv_rate"] > 0:
        s = copy.deepcopy(case)
        s["adv_rate"] = 0.0
        yield s

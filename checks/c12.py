"""C12 - gamma-cat and gamma-k follow their definition (partly a simulation target).

(sim) ``GammaResults.gamma_cat`` / ``gamma_k(c)`` submit one job per alignment
to a pool and may return from inside the ``with`` block; they run under seeded
schedules (workers 1..16, line-level pre-emption).  Oracle: the value equals
1 - observed/mean(chance) where the observed and chance categorical disorders
are obtained by calling ``gamma_k_disorder`` sequentially outside the pool, is
<= 1, is 1 when the observed categorical disorder is 0, and a non-combined
dissimilarity raises TypeError to the caller under every schedule (exception
propagation through futures).

(workload) the per-pair weighting is compared with refmodel.gammacat_model on
every alignment the runs produce (best / soft / fast, chance alignments and a
seeded random partition, and that partition again after it was edited through
the public ``UnitaryAlignment.n_tuple`` setter), for every category present and
one absent category.
This part is input-driven, not schedule-driven.
"""
import copy

import numpy as np

import pygamma_agreement as pa
from refmodel import align_oracle as ao
from refmodel import gammacat_model as gm
from simkit import world
from simkit.choices import Choices
from simkit.runner import digest
from . import common

ID = "C12"
LEVEL = "exploration"
TIERS = {
    "quick": {"runs": 1400, "wall": 70, "run_timeout": 240, "shrink_s": 60, "schedules": 2},
    "thorough": {"runs": 45000, "wall": 1100, "run_timeout": 400, "shrink_s": 180, "schedules": 3},
}
RULE = ("case = seeded gamma scenario with a combined dissimilarity (every categorical component, alpha incl. 0, delta_empty != 1) or "
        "(1 in 8) a positional one (TypeError clause); gamma computed canonically, then gamma_cat and gamma_k(c) for every category of "
        "the continuum + one absent category evaluated under k seeded schedules and compared with the aggregation of sequentially "
        "computed categorical disorders; every alignment's categorical disorder compared with the reference model, the random partition also after edits through the n_tuple setter. "
        "distinct_nontrivial = distinct (scenario, schedule digest) pairs with >= 1 cross-thread switch inside a gamma-k job")
ASSUMPTIONS = [
    "categories whose mean chance categorical disorder is 0 are skipped for gamma-k (value undefined by the statement)",
    "the two special values for alignments without co-aligned real pairs are taken from tests/test_edge_case.py",
    "the per-pair formula is decided by workload variety, not by schedule search",
    "the dissimilarity-sweep history can only expose identity-keyed caches when CPython re-uses the address of a dropped object; "
    "that is allocator behaviour the simulator does not control (counter nondet_sweep_address_reused reports how often it happened)",
]
COMPONENTS = {"real": common.REAL_COMPONENTS, "stub": common.STUB_COMPONENTS}
ABSENT = "zz_absent"


def gen(ch, tier):
    k = TIERS[tier]["schedules"]
    non_combined = ch.coin(0.12)
    scn = world.gen_gamma_scenario(ch.sub("scn"), max_annot=5 if ch.coin(0.3) else 4, max_units=6, max_samples=6,
                                   precisions=(None,), combined_only=not non_combined)
    if non_combined:
        scn["dissim"] = {"kind": "pos", "delta_empty": scn["dissim"]["delta_empty"]}
    # history: the same alignments queried again with a sweep of freshly built (and then dropped) dissimilarities
    sweep = None
    if not non_combined and ch.coin(0.15):
        sweep = ch.sample([0.25, 0.75, 1.5, 2.0, 4.0, 5.0], 4)
    return {"scenario": scn, "schedules": [world.gen_schedule(ch.sub(f"sched{i}")) for i in range(k)],
            "partition_seed": ch.randint(0, 2**31 - 1), "sweep": sweep}


def random_partition(continuum, seed):
    """A seeded arbitrary valid partition alignment (not optimal)."""
    ch = Choices(seed)
    annotators = list(continuum.annotators)
    remaining = {a: list(continuum._annotations[a]) for a in annotators}
    unitaries = []
    while any(remaining.values()):
        tup = []
        for a in annotators:
            if remaining[a] and ch.coin(0.7):
                tup.append((a, remaining[a].pop(ch.randint(0, len(remaining[a]) - 1))))
            else:
                tup.append((a, None))
        if all(u is None for _, u in tup):
            continue
        unitaries.append(pa.UnitaryAlignment(tup))
    return pa.Alignment(unitaries, continuum=continuum, check_validity=True)


def run(case):
    scn = case["scenario"]
    continuum = world.build_continuum(scn["continuum"])
    dissim = world.build_dissim(scn["dissim"])
    stats, violations = {}, []
    scn_d = digest(scn)
    keys = {"scenarios": [scn_d], "nontrivial": [], "schedules": []}

    def compute():
        np.random.seed(scn["np_seed"])
        return continuum.compute_gamma(**world.gamma_kwargs(scn, dissim, world.build_sampler(scn["sampler"])))
    out = common.sim_call(compute, world.CANONICAL_SCHEDULE)
    if out.error is not None:
        return {"violations": [], "stats": {"scenario_raises": 1}, "keys": keys, "digest": digest("raises")}
    g = out.value
    combined = scn["dissim"]["kind"] == "comb"
    cats = list(continuum.categories) + [ABSENT]
    results = {}
    if not combined:
        stats["typeerror_scenarios"] = 1
        for i, sch in enumerate(case["schedules"]):
            for what, fn in (("gamma_cat", lambda: g.gamma_cat), ("gamma_k", lambda: g.gamma_k(cats[0]))):
                o = common.sim_call(fn, sch)
                common.sim_stats(o, stats)
                keys["schedules"].append(common.sched_digest(o))
                if o.sched.in_job_switches > 0:
                    keys["nontrivial"].append(digest([scn_d, common.sched_digest(o), what]))
                if not isinstance(o.error, TypeError):
                    violations.append({"kind": "not_refused",
                                       "msg": f"{what} with a non-combined dissimilarity under schedule #{i}: expected TypeError, got "
                                              f"{'value ' + repr(o.value) if o.error is None else repr(o.error)}",
                                       "sig": {"what": what}, "schedule_index": i})
        return {"violations": violations, "stats": stats, "keys": keys, "digest": digest([v["kind"] for v in violations]),
                "sample": {"scenario": scn, "expects": "TypeError"}}
    # ---- sequential categorical disorders + model (workload part) -------------------
    alignments = [("observed", g.best_alignment)] + [(f"chance{i}", a) for i, a in enumerate(g.chance_alignments)]
    try:
        alignments.append(("random_partition", random_partition(continuum, case["partition_seed"])))
    except Exception:  # noqa: BLE001
        pass
    seq = {}
    for c in [None] + cats:
        vals = []
        for name, al in alignments:
            lib = float(al.gamma_k_disorder(dissim, c))
            ref = gm.categorical_disorder(al, dissim, c)
            stats["disorders_modelled"] = stats.get("disorders_modelled", 0) + 1
            if not ao.close(lib, ref, rel=2e-5, abs_=2e-6):
                violations.append({"kind": "categorical_disorder",
                                   "msg": f"gamma_k_disorder({name}, category={c!r}) = {lib!r}, reference model gives {ref!r}",
                                   "sig": {"category": "cat" if c is None else "k"}})
                break
            vals.append(lib)
        else:
            seq[c] = vals[:len(g.chance_alignments) + 1]
        if violations:
            break
    # ---- history: the SAME alignment object edited through its public interface after it was queried ------------
    # (UnitaryAlignment.n_tuple setter + the unitary_alignments list: one real unit of a unitary alignment with >= 2
    # real units is moved into a unitary alignment of its own - still a partition - then every category is asked again)
    if not violations and alignments[-1][0] == "random_partition":
        al = alignments[-1][1]
        ech = Choices(case["partition_seed"]).sub("edit")
        cand = [ua for ua in al.unitary_alignments if sum(1 for _, u in ua.n_tuple if u is not None) >= 2]
        for step in range(2):
            if not cand:
                break
            ua = ech.choice(cand)
            tup = list(ua.n_tuple)
            real = [i for i, (_, u) in enumerate(tup) if u is not None]
            i = ech.choice(real)
            a, u = tup[i]
            tup[i] = (a, None)
            ua.n_tuple = tup
            al.unitary_alignments.append(pa.UnitaryAlignment([(b, u if j == i else None) for j, (b, _) in enumerate(tup)]))
            cand = [x for x in al.unitary_alignments if sum(1 for _, v in x.n_tuple if v is not None) >= 2]
            stats["alignment_edits"] = stats.get("alignment_edits", 0) + 1
            for c in [None] + cats:
                lib = float(al.gamma_k_disorder(dissim, c))
                ref = gm.categorical_disorder(al, dissim, c)
                stats["disorders_modelled"] = stats.get("disorders_modelled", 0) + 1
                if not ao.close(lib, ref, rel=2e-5, abs_=2e-6):
                    violations.append({"kind": "categorical_disorder",
                                       "msg": f"after edit #{step + 1} of the random partition through UnitaryAlignment.n_tuple (unit of {a} "
                                              f"moved to a unitary alignment of its own): gamma_k_disorder(category={c!r}) = {lib!r}, "
                                              f"reference model gives {ref!r}",
                                       "sig": {"category": "cat" if c is None else "k", "edited": True}})
                    break
            if violations:
                break
    # ---- pooled evaluation under schedules (simulation part) ---------------------------
    if not violations:
        perfect = gm.perfectly_categorised(g.best_alignment)
        present = {u.annotation for ua in g.best_alignment.unitary_alignments for _, u in ua.n_tuple if u is not None}
        if perfect:
            stats["perfectly_categorised"] = 1
        for i, sch in enumerate(case["schedules"]):
            for c in [None] + cats:
                obs, chance = seq[c][0], seq[c][1:]
                expect = gm.gamma_from_disorders(obs, chance, "cat" if c is None else "k")
                if expect is None:
                    stats["undefined_gamma_k_skipped"] = stats.get("undefined_gamma_k_skipped", 0) + 1
                    continue
                fn = (lambda: g.gamma_cat) if c is None else (lambda c=c: g.gamma_k(c))
                o = common.sim_call(fn, sch)
                common.sim_stats(o, stats)
                sd = common.sched_digest(o)
                keys["schedules"].append(sd)
                if o.sched.in_job_switches > 0:
                    keys["nontrivial"].append(digest([scn_d, sd, c]))
                what = "gamma_cat" if c is None else f"gamma_k({c!r})"
                if o.error is not None:
                    violations.append({"kind": "raises", "msg": f"{what} under schedule #{i} raised {o.error!r}",
                                       "sig": {"exc": type(o.error).__name__}, "schedule_index": i})
                    continue
                val = float(o.value)
                results[f"{i}:{c}"] = val
                stats["values_checked"] = stats.get("values_checked", 0) + 1
                if not ao.close(val, expect, rel=1e-4, abs_=1e-5):
                    violations.append({"kind": "aggregation",
                                       "msg": f"{what} under schedule #{i} (workers={sch['workers']}) = {val!r}; 1 - observed/mean(chance) "
                                              f"from sequential categorical disorders = {expect!r} (observed {obs!r}, "
                                              f"{len(chance)} chance)", "sig": {"what": "cat" if c is None else "k"},
                                       "schedule_index": i})
                if val > 1 + 1e-6:
                    violations.append({"kind": "exceeds_one", "msg": f"{what} = {val!r} > 1", "sig": {}, "schedule_index": i})
                if obs == 0 and val != 1:
                    violations.append({"kind": "aggregation", "msg": f"{what}: observed categorical disorder 0 but value {val!r}",
                                       "sig": {"what": "one"}, "schedule_index": i})
                if perfect and (c is None or c in present) and val != 1:
                    violations.append({"kind": "perfect_not_one",
                                       "msg": f"{what} = {val!r} although co-aligned units never differ in category and none is unaligned",
                                       "sig": {}, "schedule_index": i})
            if violations:
                break
    # ---- history: parameter sweep over fresh dissimilarity objects on the SAME alignment objects ------------
    if not violations and case.get("sweep"):
        import gc
        from pygamma_agreement.continuum import GammaResults
        stats["sweeps"] = 1
        # the components are built once; only the combined object is created and dropped per step, as in a
        # user's parameter sweep (`for alpha in ...: d = Combined(alpha=alpha, ...); ...`), so that CPython is
        # likely to hand the address of a dropped dissimilarity to the next one
        base = world.build_dissim(scn["dissim"])
        seen_ids = set()
        d2 = None
        beta_, de_ = scn["dissim"]["beta"], scn["dissim"]["delta_empty"]
        for alpha in list(case["sweep"]) + list(case["sweep"])[:2]:
            d2 = pa.CombinedCategoricalDissimilarity(alpha=alpha, beta=beta_, delta_empty=de_,
                                                     pos_dissim=base.positional_dissim, cat_dissim=base.categorical_dissim)
            if id(d2) in seen_ids:
                # (allocator behaviour, not under the simulator's control: reported, excluded from the event digest)
                stats["nondet_sweep_address_reused"] = stats.get("nondet_sweep_address_reused", 0) + 1
            seen_ids.add(id(d2))
            per = []
            for name, al in alignments[:len(g.chance_alignments) + 1]:
                lib = float(al.gamma_k_disorder(d2, None))
                ref = gm.categorical_disorder(al, d2, None)
                per.append(lib)
                stats["disorders_modelled"] = stats.get("disorders_modelled", 0) + 1
                if not ao.close(lib, ref, rel=2e-5, abs_=2e-6):
                    violations.append({"kind": "categorical_disorder",
                                       "msg": f"sweep alpha={alpha}: gamma_k_disorder({name}, None) with a freshly built dissimilarity = "
                                              f"{lib!r}, reference model gives {ref!r} (same alignment object was queried before with "
                                              f"other dissimilarities)", "sig": {"category": "cat", "sweep": True}})
                    break
            if not violations:
                g2 = GammaResults(best_alignment=g.best_alignment, chance_alignments=g.chance_alignments, dissimilarity=d2)
                o = common.sim_call(lambda: g2.gamma_cat, case["schedules"][0])
                common.sim_stats(o, stats)
                expect = gm.gamma_from_disorders(per[0], per[1:], "cat")
                if o.error is None and expect is not None and not ao.close(float(o.value), expect, rel=1e-4, abs_=1e-5):
                    violations.append({"kind": "aggregation",
                                       "msg": f"sweep alpha={alpha}: gamma_cat of GammaResults over the same alignments = {float(o.value)!r}, "
                                              f"expected {expect!r}", "sig": {"what": "cat", "sweep": True}})
                g2 = None
                o = None
            # drop the dissimilarity right before the next one is created (no allocation in between)
            if violations:
                break
            d2 = None
    return {"violations": violations, "stats": stats, "keys": keys,
            "digest": digest([results, [v["kind"] for v in violations]]),
            "sample": {"scenario": scn, "schedules": case["schedules"][:1],
                       "sequential_categorical_disorders": {str(k): v[:4] for k, v in list(seq.items())[:3]}}}


def shrink_candidates(case, violation):
    i = violation.get("schedule_index")
    if i is not None and len(case["schedules"]) > 1:
        c = copy.deepcopy(case)
        c["schedules"] = [case["schedules"][i]]
        yield c
        return
    for s in common.shrink_gamma_scenario(case["scenario"]):
        if s["dissim"]["kind"] != case["scenario"]["dissim"]["kind"]:
            continue
        c = copy.deepcopy(case)
        c["scenario"] = s
        yield c
    if case.get("sweep") and not violation.get("sig", {}).get("sweep"):
        c = copy.deepcopy(case)
        c["sweep"] = None
        yield c
    if len(case["schedules"]) == 1:
        for s in common.shrink_schedule(case["schedules"][0]):
            c = copy.deepcopy(case)
            c["schedules"] = [s]
            yield c

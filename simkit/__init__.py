"""simkit - deterministic simulation kit for pygamma-agreement.

One integer decides everything: every scenario, worker count, schedule
decision, fault coin and injected RNG value derives from a ``Choices`` PRNG
seeded from VERIF_SEED and the run index.
"""

"""Baton-passing deterministic scheduler.

Real threads, but exactly one holds the baton at any time.  Every other
thread is parked on its own semaphore.  The baton moves only at *yield
points*: executor submit / job start / job end / blocking waits / intercepted
RNG calls and - in line mode - every ``line`` trace event of a frame whose
source file lies under one of ``trace_prefixes`` (the package under test).
Which thread receives the baton is decided by a ``Policy`` drawing from its
own seeded PRNG, so one seed is one exactly repeatable interleaving; the
switches actually taken are logged and can be replayed with
``ExplicitPolicy``.

There is no simulated clock: nothing on any result path of the library
reads one.  The unit of simulated time is the yield point (``step``).
"""
import random
import sys
import threading

ACTIVE = None  # the Scheduler currently running, if any


class SimAbort(BaseException):
    """Unwinds a simulated thread when the simulation is torn down."""


class HarnessError(SimAbort):
    """The simulation itself failed (deadlock, step budget, foreign thread).
    Never a property violation; never exit 0."""


class SimDeadlock(HarnessError):
    pass


class StepBudget(HarnessError):
    pass


class SimThread:
    __slots__ = ("id", "name", "sem", "wait", "finished", "real", "ident",
                 "prio", "kind")

    def __init__(self, tid, name, kind):
        self.id = tid
        self.name = name
        self.kind = kind          # 'main' | 'worker'
        self.sem = threading.Semaphore(0)
        self.wait = None          # predicate while blocked
        self.finished = False
        self.real = None
        self.ident = None
        self.prio = 0.0

    def __repr__(self):
        return f"<T{self.id} {self.name}>"


# --------------------------------------------------------------------------
# policies
# --------------------------------------------------------------------------
class Policy:
    name = "policy"

    def on_spawn(self, sched, th):
        pass

    def voluntary(self, sched, cur, site):
        """Return the thread to switch to, or None to keep running."""
        return None

    def forced(self, sched, cur, runnable, site):
        """cur cannot continue; pick one of runnable (non-empty)."""
        return runnable[0]

    def describe(self):
        return {"policy": self.name}


class SequentialPolicy(Policy):
    """Never pre-empts; when a thread blocks the lowest-id runnable thread
    continues.  With one worker this is the canonical sequential execution."""
    name = "seq"


COARSE = ("submit", "job_start", "job_end", "rng", "spawn")


class RandomPolicy(Policy):
    name = "random"

    def __init__(self, seed, p_line=0.02, p_coarse=0.3, main_scale=1.0):
        self.seed = seed
        self.r = random.Random(seed)
        self.p_line = p_line
        self.p_coarse = p_coarse
        self.main_scale = main_scale   # 0 => the main thread never yields voluntarily

    def voluntary(self, sched, cur, site):
        p = self.p_line if site == "line" else self.p_coarse
        if cur.kind == "main":
            p *= self.main_scale
        if self.r.random() >= p:
            return None
        others = [t for t in sched.runnable() if t is not cur]
        if not others:
            return None
        return others[self.r.randrange(len(others))]

    def forced(self, sched, cur, runnable, site):
        return runnable[self.r.randrange(len(runnable))]

    def describe(self):
        return {"policy": "random", "seed": self.seed, "p_line": self.p_line,
                "p_coarse": self.p_coarse, "main_scale": self.main_scale}


class PriorityPolicy(Policy):
    """PCT-style: every thread has a priority, the runnable thread with the
    highest priority runs; with probability q per yield point the running
    thread is demoted below everybody.  ``main`` decides the main thread's
    standing: 'high' = main runs ahead (all submits before any job),
    'low' = eager (each job completes inside submit), 'rand'."""
    name = "prio"

    def __init__(self, seed, q_line=0.001, q_coarse=0.1, main="rand"):
        self.seed = seed
        self.r = random.Random(seed)
        self.q_line = q_line
        self.q_coarse = q_coarse
        self.main = main
        self._low = 0.0

    def on_spawn(self, sched, th):
        if th.kind == "main":
            th.prio = {"high": 2.0, "low": -1e9, "rand": self.r.random()}[self.main]
        else:
            th.prio = self.r.random()

    def _best(self, runnable):
        best = runnable[0]
        for t in runnable[1:]:
            if t.prio > best.prio:
                best = t
        return best

    def voluntary(self, sched, cur, site):
        q = self.q_line if site == "line" else self.q_coarse
        demote = self.r.random() < q
        if demote:
            self._low -= 1.0
            if not (cur.kind == "main" and self.main == "high"):
                cur.prio = self._low
        elif site == "line":
            return None
        best = self._best(sched.runnable())
        return None if best is cur else best

    def forced(self, sched, cur, runnable, site):
        return self._best(runnable)

    def describe(self):
        return {"policy": "prio", "seed": self.seed, "q_line": self.q_line,
                "q_coarse": self.q_coarse, "main": self.main}


class ExplicitPolicy(Policy):
    """Replays a recorded list of switches [(step, to_thread_id), ...] and
    performs no other voluntary switch.  Any subset of a recorded list is
    still a valid schedule (needed by the shrinker): an entry that cannot be
    honoured is ignored and a blocked thread hands over to the lowest-id
    runnable thread."""
    name = "explicit"

    def __init__(self, switches):
        self.switches = [(int(s), int(t)) for s, t in switches]
        self.map = dict(self.switches)

    def _target(self, sched, runnable_ids):
        to = self.map.get(sched.step)
        if to is None or to not in runnable_ids:
            return None
        return sched.threads[to]

    def voluntary(self, sched, cur, site):
        if sched.step not in self.map:
            return None
        run = sched.runnable()
        th = self._target(sched, {t.id for t in run})
        return None if th is cur else th

    def forced(self, sched, cur, runnable, site):
        th = self._target(sched, {t.id for t in runnable})
        return th if th is not None else runnable[0]

    def describe(self):
        return {"policy": "explicit", "switches": [list(s) for s in self.switches]}


def make_policy(spec):
    """spec is a JSON-able dict as produced by Policy.describe()."""
    kind = spec.get("policy", "seq")
    if kind == "seq":
        return SequentialPolicy()
    if kind == "random":
        return RandomPolicy(spec["seed"], spec.get("p_line", 0.02), spec.get("p_coarse", 0.3),
                            spec.get("main_scale", 1.0))
    if kind == "prio":
        return PriorityPolicy(spec["seed"], spec.get("q_line", 0.001),
                              spec.get("q_coarse", 0.1), spec.get("main", "rand"))
    if kind == "explicit":
        return ExplicitPolicy(spec["switches"])
    raise ValueError(f"unknown policy {spec!r}")


# --------------------------------------------------------------------------
# scheduler
# --------------------------------------------------------------------------
class Scheduler:
    def __init__(self, policy, *, trace_lines=True, trace_prefixes=(),
                 max_steps=3_000_000, record_sites=False, trace_opcodes=False):
        self.policy = policy
        self.trace_lines = trace_lines
        self.trace_prefixes = tuple(trace_prefixes)
        self.trace_opcodes = trace_opcodes   # also pre-empt between the bytecodes of package frames
        self.max_steps = max_steps
        self.threads = []
        self.current = None
        self.step = 0
        self.switch_log = []       # (step, to_id, site, forced)
        self.site_counts = {}
        self.aborting = False
        self.abort_exc = None
        self.foreign_threads = 0
        self.thread_of_ident = {}
        self._code_cache = {}
        self.record_sites = record_sites
        self.in_job_switches = 0   # cross-thread switches at line sites

    # -- threads ----------------------------------------------------------
    def _new_thread(self, name, kind):
        th = SimThread(len(self.threads), name, kind)
        self.threads.append(th)
        self.policy.on_spawn(self, th)
        return th

    def spawn(self, fn, name):
        """Create a simulated thread running fn(); it becomes runnable at
        once but receives the baton only when the policy says so."""
        th = self._new_thread(name, "worker")

        def body():
            th.ident = threading.get_ident()
            self.thread_of_ident[th.ident] = th
            th.sem.acquire()
            try:
                if self.aborting:
                    return
                try:
                    fn()
                except SimAbort:
                    return
            finally:
                th.finished = True
                if not self.aborting:
                    try:
                        self._handoff(th, "thread_exit")
                    except SimAbort:
                        pass

        real = threading.Thread(target=body, name=f"sim-{name}", daemon=True)
        real._sim_managed = True
        th.real = real
        real.start()
        return th

    def runnable(self):
        out = []
        for t in self.threads:
            if t.finished:
                continue
            w = t.wait
            if w is None or w():
                out.append(t)
        return out

    # -- baton ------------------------------------------------------------
    def _abort(self, exc):
        self.aborting = True
        if self.abort_exc is None:
            self.abort_exc = exc
        for t in self.threads:
            t.sem.release()
        raise exc

    def _switch(self, cur, nxt, site, forced):
        self.switch_log.append((self.step, nxt.id, site, forced))
        if site == "line":
            self.in_job_switches += 1
        self.current = nxt
        nxt.sem.release()
        cur.sem.acquire()
        if self.aborting:
            raise SimAbort()

    def _handoff(self, cur, site):
        """cur is finished: pass the baton on without waiting for it back."""
        self.step += 1
        run = self.runnable()
        if not run:
            if all(t.finished for t in self.threads):
                return
            self._abort(SimDeadlock(f"deadlock at step {self.step} after exit of {cur}"))
        nxt = self.policy.forced(self, cur, run, site)
        self.switch_log.append((self.step, nxt.id, site, True))
        self.current = nxt
        nxt.sem.release()

    def yield_point(self, site):
        cur = self.current
        if cur is None or threading.get_ident() != cur.ident:
            self.foreign_threads += 1
            return
        self.step += 1
        if self.record_sites:
            self.site_counts[site] = self.site_counts.get(site, 0) + 1
        if self.step > self.max_steps:
            self._abort(StepBudget(f"step budget {self.max_steps} exhausted"))
        nxt = self.policy.voluntary(self, cur, site)
        if nxt is not None and nxt is not cur:
            self._switch(cur, nxt, site, False)

    def yield_away(self, site):
        """Hand the baton to some OTHER runnable thread if there is one (used by
        observer threads, which must never spin)."""
        cur = self.current
        if cur is None or threading.get_ident() != cur.ident:
            self.foreign_threads += 1
            return
        self.step += 1
        if self.step > self.max_steps:
            self._abort(StepBudget(f"step budget {self.max_steps} exhausted"))
        others = [t for t in self.runnable() if t is not cur]
        if not others:
            if any(not t.finished for t in self.threads if t is not cur):
                self._abort(SimDeadlock(f"deadlock at step {self.step}: only the observer thread can run"))
            return
        nxt = self.policy.forced(self, cur, others, site)
        self._switch(cur, nxt, site, True)

    def block(self, pred, site):
        """Block the calling simulated thread until pred() holds."""
        cur = self.current
        if cur is None or threading.get_ident() != cur.ident:
            self.foreign_threads += 1
            raise HarnessError("block() from a thread the simulator does not own")
        self.step += 1
        if self.record_sites:
            self.site_counts[site] = self.site_counts.get(site, 0) + 1
        if pred():
            nxt = self.policy.voluntary(self, cur, site)
            if nxt is not None and nxt is not cur:
                self._switch(cur, nxt, site, False)
            return
        cur.wait = pred
        try:
            run = self.runnable()
            if not run:
                self._abort(SimDeadlock(f"deadlock at step {self.step}: {cur} waits at {site}"))
            nxt = self.policy.forced(self, cur, run, site)
            self._switch(cur, nxt, site, True)
        finally:
            cur.wait = None

    # -- tracing ----------------------------------------------------------
    def _traced(self, code):
        r = self._code_cache.get(code)
        if r is None:
            fn = code.co_filename
            r = any(fn.startswith(p) for p in self.trace_prefixes)
            self._code_cache[code] = r
        return r

    def _global_trace(self, frame, event, arg):
        if event == "call" and self._traced(frame.f_code):
            if self.trace_opcodes:
                frame.f_trace_opcodes = True
            return self._local_trace
        return None

    def _local_trace(self, frame, event, arg):
        if event == "line" or event == "opcode":
            self.yield_point("line")
        return self._local_trace

    # -- entry ------------------------------------------------------------
    def run(self, fn, *args, **kwargs):
        global ACTIVE
        if ACTIVE is not None:
            raise HarnessError("nested simulation")
        ACTIVE = self
        main = self._new_thread("main", "main")
        main.ident = threading.get_ident()
        self.thread_of_ident[main.ident] = main
        self.current = main
        old_trace = sys.gettrace()
        orig_start = threading.Thread.start
        sched = self

        def start_probe(thread_self):
            if not getattr(thread_self, "_sim_managed", False):
                sched.foreign_threads += 1
            return orig_start(thread_self)

        threading.Thread.start = start_probe
        if self.trace_lines and self.trace_prefixes:
            threading.settrace(self._global_trace)
            sys.settrace(self._global_trace)
        try:
            try:
                return fn(*args, **kwargs)
            except SimAbort:
                if self.abort_exc is not None:
                    raise self.abort_exc from None
                raise
        finally:
            sys.settrace(old_trace)
            threading.settrace(None)
            threading.Thread.start = orig_start
            leftovers = [t for t in self.threads if t.real is not None and not t.finished]
            if leftovers:
                self.aborting = True
                for t in self.threads:
                    t.sem.release()
            for t in self.threads:
                if t.real is not None:
                    t.real.join(5.0)
            ACTIVE = None

    # -- reporting --------------------------------------------------------
    def schedule_digest_material(self):
        return [(s, t, site) for (s, t, site, _f) in self.switch_log]

    def explicit_switches(self):
        return [[s, t] for (s, t, _site, _f) in self.switch_log]

"""Adversarial but LEGAL random draws.

An ``Adversary`` is an injector for simkit.rngseam: with a per-run rate it
replaces the value returned by an intercepted ``numpy.random`` call by a value
that lies in the support of the requested law but is extreme:

  normal(mu, s)   : mu, mu +- k*s (k in 1..4), and - only when it lies within
                    +-4 s - a 'landing' value chosen by the check (e.g. one
                    that makes a duration fall just below / above the segment
                    precision, or a unit count fall to 0)
  uniform(a, b)   : a, nextafter(b, a), midpoint, values next to a previously
                    returned value (forces near-colliding pivots), 'landing'
                    values inside (a, b) chosen by the check
  random()        : 0.0, 1 - 2**-53
  randint(lo, hi) : lo, hi - 1
  choice(xs, p)   : first / last element with non-zero weight

Never injected: values outside the support; exact measure-zero specials the
consumer would have to divide by; exact COINCIDENCES between two continuous
draws (every injected normal / interior uniform value carries a tiny jitter
that is unique per call, so two injected values are never exactly equal nor
exactly 0.5 apart - a joint event of probability zero that set semantics would
turn into a lost unit; the closed ends a / nextafter(b) and random() == 0.0
stay exact); more than ``max_consecutive`` extremes in a row for the same
function (so a legitimate redraw-until-valid loop cannot be starved by the
injector).  Coins come from the run's Choices, never from NumPy.
Array-valued requests (size=...) are passed through untouched.
"""
import math

import numpy as np

from .rngseam import NOINJECT


class Adversary:
    def __init__(self, ch, rate, landings=None, max_consecutive=3):
        self.ch = ch
        self.rate = rate
        self.landings = landings or {}     # fname -> callable(args, kwargs) -> list of candidate values
        self.max_consecutive = max_consecutive
        self.consecutive = {}
        self.history = {}                  # fname -> last returned values
        self.fired = {}
        self.n_injected = 0

    def __call__(self, fname, args, kwargs, real):
        if kwargs.get("size") is not None or (fname in ("normal", "uniform") and len(args) > 2):
            return NOINJECT
        if fname in ("random", "random_sample") and (args or kwargs):
            return NOINJECT
        if self.consecutive.get(fname, 0) >= self.max_consecutive or not self.ch.coin(self.rate):
            self.consecutive[fname] = 0
            return NOINJECT
        v = self._pick(fname, args, kwargs)
        if v is NOINJECT:
            self.consecutive[fname] = 0
            return NOINJECT
        self.consecutive[fname] = self.consecutive.get(fname, 0) + 1
        self.fired[fname] = self.fired.get(fname, 0) + 1
        self.history.setdefault(fname, []).append(v)
        return v

    def _pick(self, fname, args, kwargs):
        ch = self.ch
        if fname == "normal":
            mu = float(args[0] if len(args) > 0 else kwargs.get("loc", 0.0))
            s = float(args[1] if len(args) > 1 else kwargs.get("scale", 1.0))
            cands = [mu] + [mu + k * s for k in (-4, -3, -2, -1, 1, 2, 3, 4)]
            if s > 0:
                for x in self.landings.get("normal", lambda a, k: [])(args, kwargs):
                    if abs(x - mu) <= 4 * s:
                        cands += [x, x]
            elif s == 0:
                return NOINJECT
            v = float(ch.choice(cands))
            self.n_injected += 1
            return v + (self.n_injected % 9973 + 1) * 1e-13 * max(1.0, abs(v), abs(s))
        if fname == "uniform":
            a = float(args[0] if len(args) > 0 else kwargs.get("low", 0.0))
            b = float(args[1] if len(args) > 1 else kwargs.get("high", 1.0))
            if not (a < b):
                return NOINJECT
            cands = [a, math.nextafter(b, a), (a + b) / 2]
            for prev in self.history.get("uniform", [])[-4:]:
                for d in (1e-9, -1e-9, 0.01, -0.01, 0.5, -0.5):
                    x = prev + d
                    if a <= x < b:
                        cands.append(x)
            for x in self.landings.get("uniform", lambda a_, k: [])(args, kwargs):
                if a <= x < b:
                    cands += [x, x]
            i = ch.randint(0, len(cands) - 1)
            v = float(cands[i])
            if i >= 2:
                # interior values get a jitter unique to this call (no exact coincidence with another draw)
                self.n_injected += 1
                v2 = v + (self.n_injected % 9973 + 1) * 1e-13 * max(1.0, abs(a), abs(b))
                if a <= v2 < b:
                    v = v2
            return v
        if fname in ("random", "random_sample"):
            return float(ch.choice([0.0, 1.0 - 2.0 ** -53, 0.5]))
        if fname == "randint":
            lo = int(args[0])
            hi = args[1] if len(args) > 1 else kwargs.get("high")
            if hi is None:
                lo, hi = 0, lo
            hi = int(hi)
            if hi <= lo:
                return NOINJECT
            return int(ch.choice([lo, hi - 1]))
        if fname == "choice":
            xs = args[0]
            p = args[2] if len(args) > 2 else kwargs.get("p")
            if kwargs.get("replace") is False or isinstance(xs, (int, np.integer)):
                return NOINJECT
            try:
                seq = list(xs)
            except TypeError:
                return NOINJECT
            if not seq:
                return NOINJECT
            if p is None:
                idxs = list(range(len(seq)))
            else:
                pl = [float(x) for x in p]
                if len(pl) != len(seq) or any(not (x >= 0) for x in pl) or abs(sum(pl) - 1) > 1e-6:
                    return NOINJECT   # let NumPy raise what it would raise
                idxs = [i for i, x in enumerate(pl) if x > 0]
            if not idxs:
                return NOINJECT
            i = ch.choice([idxs[0], idxs[-1]])
            # mimic numpy: element of np.array(xs)
            arr = np.array(xs)
            return arr[i]
        return NOINJECT

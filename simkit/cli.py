"""Entry point: python -m simkit.cli <ID> [options] (see bin/check)."""
import importlib
import json
import os
import sys


def main():
    if len(sys.argv) < 2:
        print("usage: bin/check <ID> [--tier quick|thorough] [--replay file]", file=sys.stderr)
        return 2
    prop = sys.argv[1].upper()
    rest = sys.argv[2:]
    # a replay may ask for a specific interpreter environment (e.g. PYTHONHASHSEED)
    if "--replay" in rest and not os.environ.get("VERIF_REPLAY_ENV_SET"):
        path = rest[rest.index("--replay") + 1]
        try:
            with open(path) as f:
                env_req = (json.load(f).get("case") or {}).get("replay_env")
        except Exception:
            env_req = None
        if env_req:
            env = dict(os.environ)
            env.update({k: str(v) for k, v in env_req.items()})
            env["VERIF_REPLAY_ENV_SET"] = "1"
            os.execve(sys.executable, [sys.executable, "-W", "ignore", "-m", "simkit.cli"] + sys.argv[1:], env)
    # the package under test: /repo's working tree (VERIF_REPO lets the mutant matrix point at a scratch worktree)
    sys.path.insert(0, os.environ.get("VERIF_REPO", "/repo"))
    from simkit import runner
    mod = importlib.import_module(f"checks.{prop.lower()}")
    return runner.main(mod, rest)


if __name__ == "__main__":
    sys.exit(main())

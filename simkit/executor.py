"""SimExecutor: a ThreadPoolExecutor whose workers are simulated threads.

Semantics kept from CPython's executor: jobs leave the queue FIFO; a worker
thread is created on submit when no worker is idle and fewer than
max_workers exist; ``with`` exit / shutdown(wait=True) joins the workers;
Future.result() blocks.  What is *not* kept is who runs when: that is the
scheduler's decision.
"""
import collections
import concurrent.futures as cf
import concurrent.futures._base as cf_base
import concurrent.futures.thread as cf_thread
import itertools
import os

from . import sched as _sched

RealThreadPoolExecutor = cf_thread.ThreadPoolExecutor
_real_as_completed = cf_base.as_completed
_real_wait = cf_base.wait


class SimFuture(cf.Future):
    def __init__(self, job_index):
        super().__init__()
        self._sim_job = job_index
        self._sim_done_seq = None

    def result(self, timeout=None):
        s = _sched.ACTIVE
        if s is not None and not self.done():
            s.block(self.done, "future_wait")
        return super().result(0 if s is not None else timeout)

    def exception(self, timeout=None):
        s = _sched.ACTIVE
        if s is not None and not self.done():
            s.block(self.done, "future_wait")
        return super().exception(0 if s is not None else timeout)


class ExecutorStats:
    """Per-simulation record of what the pools did (probes for evidence)."""

    def __init__(self):
        self.pools = 0
        self.jobs = 0
        self.workers = 0
        self.completion_order = []   # (pool, job) in completion order
        self.start_order = []
        self.job_thread = {}         # (pool, job) -> thread id
        self.max_workers_seen = []
        self.events = []             # ("start" | "done", (pool, job)) in simulated-time order

    def reordered(self):
        """some pool completed its jobs in an order different from the submission order"""
        per = {}
        for p, j in self.completion_order:
            per.setdefault(p, []).append(j)
        return any(v != sorted(v) for v in per.values())

    def stalled(self):
        """some started job was held back while at least two jobs that started LATER ran from start to
        completion (its worker is the slow / stalled node of this system)"""
        pos = {}
        for i, (what, key) in enumerate(self.events):
            pos[(what, key)] = i
        jobs = [k for (w, k) in pos if w == "start" and ("done", k) in pos]
        for j in jobs:
            sj, dj = pos[("start", j)], pos[("done", j)]
            inside = sum(1 for k in jobs if k != j and k[0] == j[0] and sj < pos[("start", k)] and pos[("done", k)] < dj)
            if inside >= 2:
                return True
        return False


STATS = None  # set by env.simulate()


class SimExecutor:
    _pool_counter = itertools.count()

    def __init__(self, max_workers=None, thread_name_prefix="", initializer=None, initargs=()):
        s = _sched.ACTIVE
        if s is None:
            raise _sched.HarnessError("SimExecutor used outside a simulation")
        if max_workers is None:
            max_workers = min(32, (os.cpu_count() or 1) + 4)
        if max_workers <= 0:
            raise ValueError("max_workers must be greater than 0")
        self._sched = s
        self._max_workers = max_workers
        self._queue = collections.deque()
        self._workers = []
        self._idle = 0
        self._shutdown = False
        self._initializer = initializer
        self._initargs = initargs
        self._njobs = 0
        st = STATS
        self._pool_id = st.pools if st is not None else 0
        if st is not None:
            st.pools += 1
            st.max_workers_seen.append(max_workers)

    # -- executor API -----------------------------------------------------
    def submit(self, fn, /, *args, **kwargs):
        if self._shutdown:
            raise RuntimeError("cannot schedule new futures after shutdown")
        fut = SimFuture(self._njobs)
        self._njobs += 1
        if STATS is not None:
            STATS.jobs += 1
        self._queue.append((fut, fn, args, kwargs))
        # CPython: a worker that finds the queue empty releases one idle token;
        # submit consumes a token if there is one, else starts a new thread.
        if self._idle > 0:
            self._idle -= 1
        elif len(self._workers) < self._max_workers:
            idx = len(self._workers)
            th = self._sched.spawn(self._worker_main, f"p{self._pool_id}w{idx}")
            self._workers.append(th)
            if STATS is not None:
                STATS.workers += 1
        self._sched.yield_point("submit")
        return fut

    def map(self, fn, *iterables, timeout=None, chunksize=1):
        futs = [self.submit(fn, *a) for a in zip(*iterables)]

        def gen():
            for f in futs:
                yield f.result()
        return gen()

    def shutdown(self, wait=True, *, cancel_futures=False):
        self._shutdown = True
        if cancel_futures:
            while self._queue:
                fut, *_ = self._queue.popleft()
                fut.cancel()
        s = self._sched
        if s.aborting or _sched.ACTIVE is not s:
            return
        if wait:
            ws = self._workers
            s.block(lambda: all(w.finished for w in ws), "shutdown")

    def __enter__(self):
        return self

    def __exit__(self, exc_type, exc, tb):
        self.shutdown(wait=True)
        return False

    # -- worker -----------------------------------------------------------
    def _worker_main(self):
        s = self._sched
        if self._initializer is not None:
            self._initializer(*self._initargs)
        while True:
            if not self._queue:
                if self._shutdown:
                    return
                self._idle += 1
                s.block(lambda: bool(self._queue) or self._shutdown, "idle")
                continue
            fut, fn, args, kwargs = self._queue.popleft()
            if not fut.set_running_or_notify_cancel():
                continue
            key = (self._pool_id, fut._sim_job)
            if STATS is not None:
                STATS.start_order.append(key)
                STATS.events.append(("start", key))
                STATS.job_thread[key] = s.current.id
            s.yield_point("job_start")
            try:
                res = fn(*args, **kwargs)
            except _sched.SimAbort:
                raise
            except BaseException as e:  # noqa: BLE001 - same as CPython's worker
                fut.set_exception(e)
            else:
                fut.set_result(res)
            if STATS is not None:
                fut._sim_done_seq = len(STATS.completion_order)
                STATS.completion_order.append(key)
                STATS.events.append(("done", key))
            del fn, args, kwargs
            s.yield_point("job_end")


# -- sim-aware replacements for module-level helpers ---------------------------
def sim_as_completed(fs, timeout=None):
    s = _sched.ACTIVE
    fs = list(fs)
    if s is None or not all(isinstance(f, SimFuture) for f in fs):
        yield from _real_as_completed(fs, timeout)
        return
    pending = list(dict.fromkeys(fs))
    while pending:
        done = [f for f in pending if f.done()]
        if not done:
            s.block(lambda: any(f.done() for f in pending), "as_completed")
            continue
        done.sort(key=lambda f: (f._sim_done_seq is None, f._sim_done_seq))
        for f in done:
            pending.remove(f)
            yield f


def sim_wait(fs, timeout=None, return_when=cf.ALL_COMPLETED):
    s = _sched.ACTIVE
    fs = list(fs)
    if s is None or not all(isinstance(f, SimFuture) for f in fs):
        return _real_wait(fs, timeout, return_when)

    def ready():
        if return_when == cf.FIRST_COMPLETED:
            return any(f.done() for f in fs)
        if return_when == cf.FIRST_EXCEPTION:
            return all(f.done() for f in fs) or any(
                f.done() and not f.cancelled() and f.exception(0) is not None for f in fs)
        return all(f.done() for f in fs)
    if not ready():
        s.block(ready, "wait")
    done = {f for f in fs if f.done()}
    return cf_base.DoneAndNotDoneFutures(done, set(fs) - done)

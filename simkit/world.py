"""Scenario data: continua, dissimilarities, gamma computations, schedules.

Everything generated here is *explicit JSON-able data* (lists, numbers,
strings) so that a case can be written to a replay file, shrunk structurally
and rebuilt in a fresh process.  Builders turn the data into library objects.
"""
import json

import numpy as np
from pyannote.core import Segment
from sortedcontainers import SortedSet

import pygamma_agreement as pa

ANNOTATOR_NAMES = ["Ann", "Bob", "Cyd", "Dee", "Eve"]
LABELS_ALPHA = ["a", "b", "c", "d"]
LABELS_WORDS = ["noun", "verb", "adj", "adverb"]
LABELS_NUM = ["1", "2", "3", "5"]
LABEL_SETS = {"alpha": LABELS_ALPHA, "words": LABELS_WORDS, "num": LABELS_NUM}


def r3(x):
    return round(float(x), 3)


# --------------------------------------------------------------------------
# continua
# --------------------------------------------------------------------------
def gen_continuum(ch, *, min_annot=2, max_annot=4, max_units=7, labelset="alpha",
                  allow_empty_annot=True, allow_none_label=False, families=None,
                  min_total_units=1):
    """Returns {"annotators": [[name, [[start, end, label], ...]], ...], "family": str}"""
    labels = LABEL_SETS[labelset]
    n_annot = ch.randint(min_annot, max_annot)
    names = ANNOTATOR_NAMES[:n_annot]
    fam = ch.weighted(families or [("jitter", 5), ("random", 3), ("grid", 3), ("identical", 1),
                                   ("nested", 1), ("staircase", 1), ("staircase_shared", 1), ("sparse", 1), ("hetero", 2)])
    units = {n: [] for n in names}

    def lab():
        if allow_none_label and ch.coin(0.25):
            return None
        return ch.choice(labels)

    if fam == "jitter":
        k = ch.randint(1, max_units)
        t = 0.0
        ref = []
        for _ in range(k):
            t += ch.uniform(0.0, 4.0)
            d = ch.uniform(0.5, 6.0)
            ref.append((t, t + d, lab()))
            t += d if ch.coin(0.8) else d * 0.5
        noise = ch.choice([0.0, 0.2, 1.0, 3.0])
        for n in names:
            for (s, e, l) in ref:
                if ch.coin(0.15):
                    continue
                s2 = s + ch.uniform(-noise, noise)
                e2 = e + ch.uniform(-noise, noise)
                if e2 - s2 < 0.05:
                    e2 = s2 + 0.5
                l2 = l if ch.coin(0.7) else lab()
                units[n].append([r3(s2), r3(e2), l2])
            if ch.coin(0.2) and len(units[n]) < max_units:
                s = ch.uniform(0, t)
                units[n].append([r3(s), r3(s + ch.uniform(0.5, 4)), lab()])
    elif fam == "random":
        for n in names:
            for _ in range(ch.randint(0 if allow_empty_annot else 1, max_units)):
                s = ch.uniform(0, 30)
                units[n].append([r3(s), r3(s + ch.uniform(0.3, 8)), lab()])
    elif fam == "grid":
        for n in names:
            for _ in range(ch.randint(0 if allow_empty_annot else 1, max_units)):
                s = ch.randint(0, 12)
                units[n].append([float(s), float(s + ch.randint(1, 4)), lab()])
    elif fam == "identical":
        k = ch.randint(1, max_units)
        ref = []
        t = 0.0
        for _ in range(k):
            t += ch.uniform(0.0, 3.0)
            d = ch.uniform(0.5, 5.0)
            ref.append([r3(t), r3(t + d), lab()])
            t += d
        for n in names:
            units[n] = [list(u) for u in ref]
    elif fam == "nested":
        for n in names:
            if ch.coin(0.5):
                units[n].append([0.0, r3(ch.uniform(10, 20)), lab()])
            for _ in range(ch.randint(0, max_units - 1)):
                s = ch.uniform(0, 18)
                units[n].append([r3(s), r3(s + ch.uniform(0.3, 2.0)), lab()])
    elif fam == "staircase":
        step = ch.uniform(0.5, 2.0)
        length = ch.uniform(2.0, 8.0)
        for i, n in enumerate(names):
            for j in range(ch.randint(1, max_units)):
                s = j * step + i * step / len(names)
                units[n].append([r3(s), r3(s + length), lab()])
    elif fam == "staircase_shared":
        # overlapping staircase; annotator i starts i whole steps later, so neighbouring annotators hold
        # IDENTICAL units (same segment and label) that the optimum pairs crosswise, not with each other
        step = float(ch.randint(2, 6))
        length = step * ch.choice([1.5, 2.0, 2.5])
        k = ch.randint(2, max(2, max_units))
        labs = [lab() for _ in range(k + n_annot)]
        same_label = ch.coin(0.6)
        for i, n in enumerate(names):
            for j in range(k):
                s = (i + j) * step
                units[n].append([r3(s), r3(s + length), labs[0] if same_label else labs[i + j]])
    elif fam == "hetero":
        # very heterogeneous durations (0.3 .. 100, log-uniform): a long unit can be positionally closer
        # than a short one that starts earlier, because the dissimilarity is normalised by durations
        import math as _m
        for n in names:
            t = ch.uniform(0.0, 5.0)
            for _ in range(ch.randint(0 if allow_empty_annot else 1, max_units)):
                d = _m.exp(ch.uniform(_m.log(0.3), _m.log(100.0)))
                units[n].append([r3(t), r3(t + d), lab()])
                t += ch.choice([0.3, 1.0, 1.0]) * d * ch.uniform(0.1, 1.2)
    elif fam == "dense":
        # heavily overlapping units of similar length: almost every combination stays under the pruning
        # bound, so the candidate set is (nearly) the full product - crosses the 10000-candidate buffer growth
        base = ch.uniform(4.0, 8.0)
        for n in names:
            for _ in range(ch.randint(max(1, max_units - 2), max_units)):
                s = ch.uniform(0.0, 3.0)
                units[n].append([r3(s), r3(s + base + ch.uniform(-1.0, 1.0)), lab()])
    elif fam == "sparse":
        for n in names:
            for _ in range(ch.randint(0, 2)):
                s = ch.uniform(0, 100)
                units[n].append([r3(s), r3(s + ch.uniform(0.5, 30)), lab()])
    # modifiers
    if allow_empty_annot and n_annot >= 3 and ch.coin(0.12):
        units[ch.choice(names)] = []
    if ch.coin(0.1):
        n = ch.choice(names)
        if units[n] and len(units[n]) < max_units:
            s, e, l = ch.choice(units[n])
            others = [x for x in labels if x != l]
            units[n].append([s, e, ch.choice(others)])
    if ch.coin(0.08):
        # the whole timeline at or below zero (Continuum bounds start at (0, 0), so bound_sup stays 0)
        top = max([e for n in names for _, e, _ in units[n]] or [0.0])
        off = top + ch.choice([0.0, 0.0, 2.5])
        for n in names:
            units[n] = [[r3(s - off), r3(e - off), l] for s, e, l in units[n]]
    # de-duplicate, cap
    out = []
    total = 0
    for n in names:
        seen = set()
        lst = []
        for s, e, l in units[n]:
            if e - s < 0.01:
                continue
            key = (s, e, l)
            if key in seen:
                continue
            seen.add(key)
            lst.append([s, e, l])
        lst = lst[:max_units]
        total += len(lst)
        out.append([n, lst])
    if total < min_total_units:
        out[0][1].append([1.0, 3.0, labels[0]])
    return {"annotators": out, "family": fam, "labelset": labelset}


def gen_large_continuum(ch, labelset="alpha"):
    """Long, mildly overlapping continuum (4-5 annotators x 14-32 units) on which the windowed
    (fast) algorithm is judged advantageous, so that fast-mode gamma really measures and uses a window."""
    labels = LABEL_SETS[labelset]
    p = ch.choice([4, 4, 5])
    n = ch.randint(24, 32) if p == 4 else ch.randint(14, 18)
    ref = []
    t = 0.0
    for _ in range(n):
        t += ch.uniform(0.5, 3.0)
        d = ch.uniform(1.0, 4.0)
        ref.append((t, t + d, ch.choice(labels)))
        t += d
    out = []
    for nm in ANNOTATOR_NAMES[:p]:
        units = []
        for (s, e, l) in ref:
            if ch.coin(0.1):
                continue
            units.append([r3(s + ch.uniform(-0.4, 0.4)), r3(e + ch.uniform(-0.4, 0.4)), l if ch.coin(0.8) else ch.choice(labels)])
        out.append([nm, units])
    return {"annotators": out, "family": "large_fast", "labelset": labelset}


def build_continuum(spec):
    c = pa.Continuum()
    for name, units in spec["annotators"]:
        c.add_annotator(name)
        for s, e, l in units:
            c.add(name, Segment(s, e), l)
    return c


def continuum_to_spec(c, family="derived", labelset="alpha"):
    return {"annotators": [[a, [[u.segment.start, u.segment.end, u.annotation] for u in c._annotations[a]]]
                           for a in c.annotators], "family": family, "labelset": labelset}


def continuum_units(spec):
    return sum(len(u) for _, u in spec["annotators"])


def continuum_key(c):
    """Canonical, hashable content of a Continuum (annotators, units)."""
    return tuple((a, tuple((u.segment.start, u.segment.end, u.annotation) for u in c._annotations[a]))
                 for a in c._annotations.keys())


# --------------------------------------------------------------------------
# dissimilarities
# --------------------------------------------------------------------------
_DISSIM_CACHE = {}
_DISSIM_CACHE_MAX = 320


def gen_dissim(ch, labelset="alpha", *, combined_only=False, kinds=None):
    # dyadic values and values that are not exactly representable in float32 (rounding at the pruning bound)
    de = ch.choice([0.5, 1.0, 1.0, 1.0, 1.5, 2.0, 0.1, 0.2, 0.3, 0.4, 0.7, 0.8, 0.9, 1.1, 1.3, 1.7])
    if not combined_only and ch.coin(0.3):
        return {"kind": "pos", "delta_empty": de}
    if kinds is None:
        kinds = ["abs", "abs", "lev", "ord"] + (["num"] if labelset == "num" else [])
    cat = ch.choice(kinds)
    alpha = ch.choice([0.0, 0.5, 1.0, 1.0, 3.0])
    beta = ch.choice([0.0, 0.5, 1.0, 1.0, 3.0])
    if alpha == 0.0 and beta == 0.0:
        alpha = 1.0
    return {"kind": "comb", "alpha": alpha, "beta": beta, "delta_empty": de, "cat": cat,
            "labelset": labelset}


def build_dissim(spec, fresh=False):
    key = json.dumps(spec, sort_keys=True)
    if not fresh and key in _DISSIM_CACHE:
        return _DISSIM_CACHE[key]
    de = spec["delta_empty"]
    if spec["kind"] == "pos":
        d = pa.PositionalSporadicDissimilarity(delta_empty=de)
    else:
        labels = sorted(LABEL_SETS[spec["labelset"]])
        cat = spec["cat"]
        if cat == "abs":
            cd = pa.AbsoluteCategoricalDissimilarity(delta_empty=de)
        elif cat == "lev":
            cd = pa.LevenshteinCategoricalDissimilarity(labels, delta_empty=de)
        elif cat == "ord":
            cd = pa.OrdinalCategoricalDissimilarity(labels, delta_empty=de)
        elif cat == "num":
            cd = pa.NumericalCategoricalDissimilarity(labels, delta_empty=de)
        else:
            raise ValueError(cat)
        d = pa.CombinedCategoricalDissimilarity(alpha=spec["alpha"], beta=spec["beta"],
                                                delta_empty=de, cat_dissim=cd)
    if not fresh:
        if len(_DISSIM_CACHE) >= _DISSIM_CACHE_MAX:
            _DISSIM_CACHE.pop(next(iter(_DISSIM_CACHE)))
        _DISSIM_CACHE[key] = d
    return d


# --------------------------------------------------------------------------
# samplers / gamma scenarios
# --------------------------------------------------------------------------
def build_sampler(name):
    if name == "stat":
        return pa.StatisticalContinuumSampler()
    if name == "shuffle_int":
        return pa.ShuffleContinuumSampler(pivot_type="int_pivot")
    if name == "shuffle_float":
        return pa.ShuffleContinuumSampler(pivot_type="float_pivot")
    if name == "default":
        return None
    raise ValueError(name)


def gen_gamma_scenario(ch, *, max_annot=4, max_units=7, max_samples=10, precisions=(None, None, 0.3, 0.2),
                       modes=("exact", "exact", "fast", "soft"), combined_only=False, large_fast=0.0):
    labelset = ch.choice(["alpha", "alpha", "words", "num"])
    if large_fast and ch.coin(large_fast):
        cont = gen_large_continuum(ch.sub("cont"), labelset)
        dis = gen_dissim(ch.sub("dissim"), labelset, combined_only=combined_only)
        if dis["kind"] == "comb" and dis["alpha"] < 1.0:
            # with a weak positional part every unit is "reachable" and the first window is the whole continuum:
            # the exact alignment of 100+ units would take minutes
            dis["alpha"] = ch.choice([1.0, 3.0])
        return {"continuum": cont, "dissim": dis,
                "sampler": ch.choice(["stat", "shuffle_int", "shuffle_float", "default"]), "mode": "fast",
                "n_samples": ch.randint(2, 4), "precision": None, "gt": None, "np_seed": ch.randint(0, 2**31 - 1)}
    cont = gen_continuum(ch.sub("cont"), max_annot=max_annot, max_units=max_units, labelset=labelset,
                         allow_none_label=False, min_total_units=2)
    names = [n for n, _ in cont["annotators"]]
    gt = None
    if len(names) >= 3 and ch.coin(0.25):
        k = ch.randint(2, len(names) - 1)
        gt = sorted(ch.sample(names, k))
        # the ground truth must hold at least one unit, else samplers cannot produce anything
        if sum(len(u) for n, u in cont["annotators"] if n in gt) == 0:
            gt = None
    return {
        "continuum": cont,
        "dissim": gen_dissim(ch.sub("dissim"), labelset, combined_only=combined_only),
        "sampler": ch.choice(["stat", "stat", "shuffle_int", "shuffle_float", "default"]),
        "mode": ch.choice(list(modes)),
        "n_samples": ch.randint(1, max_samples),
        "precision": ch.choice(list(precisions)),
        "gt": gt,
        "np_seed": ch.randint(0, 2**31 - 1),
    }


def gamma_kwargs(scn, dissim, sampler):
    kw = dict(dissimilarity=dissim, n_samples=scn["n_samples"], precision_level=scn["precision"],
              sampler=sampler, fast=scn["mode"] == "fast", soft=scn["mode"] == "soft")
    if scn.get("gt") is not None:
        kw["ground_truth_annotators"] = SortedSet(scn["gt"])
    return kw


# --------------------------------------------------------------------------
# schedules
# --------------------------------------------------------------------------
def gen_schedule(ch):
    """Swarm-style: worker count and policy shape vary per run."""
    workers = ch.choice([1, 2, 2, 3, 4, 5, 8, 16])
    shape = ch.weighted([("random", 4), ("random_main_ahead", 2), ("prio", 3), ("prio_main_high", 2),
                         ("prio_main_low", 1), ("seq", 1)])
    seed = ch.randint(0, 2**31 - 1)
    if shape == "seq":
        pol = {"policy": "seq"}
    elif shape == "random":
        pol = {"policy": "random", "seed": seed, "p_line": ch.choice([0.0, 0.005, 0.02, 0.05, 0.2]),
               "p_coarse": ch.choice([0.1, 0.3, 0.6, 1.0]), "main_scale": 1.0}
    elif shape == "random_main_ahead":
        pol = {"policy": "random", "seed": seed, "p_line": ch.choice([0.005, 0.02, 0.05, 0.2]),
               "p_coarse": ch.choice([0.3, 0.6, 1.0]), "main_scale": 0.0}
    else:
        main = {"prio": "rand", "prio_main_high": "high", "prio_main_low": "low"}[shape]
        pol = {"policy": "prio", "seed": seed, "q_line": ch.choice([0.0, 0.001, 0.005, 0.02, 0.05]),
               "q_coarse": ch.choice([0.0, 0.1, 0.3]), "main": main}
    sched = {"workers": workers, "policy": pol, "trace_lines": True}
    if ch.coin(0.15):
        sched["trace_sortedcontainers"] = True
    # (bytecode-level pre-emption - sched["trace_opcodes"] - is implemented but never generated: CPython 3.12's
    # adaptive interpreter specialises bytecode as it warms up, so the number of 'opcode' trace events of the same
    # code differs between a fresh process and a warm one, and a replay in a fresh process would not be exact.)
    return sched


CANONICAL_SCHEDULE = {"workers": 1, "policy": {"policy": "seq"}, "trace_lines": False}


def gen_faults(ch, p_fault=0.5):
    """Solver fault plan (JSON-able)."""
    if not ch.coin(p_fault):
        return {"mode": "none", "fail": None}
    kind = ch.choice(["import_error", "solver_error", "solver_error"])
    if kind == "import_error":
        return {"mode": "import_error", "fail": None}
    how = ch.choice(["all", "one", "subset"])
    if how == "all":
        return {"mode": "solver_error", "fail": "all"}
    if how == "one":
        return {"mode": "solver_error", "fail": [ch.randint(0, 12)]}
    return {"mode": "solver_error", "fail": sorted(set(ch.randint(0, 14) for _ in range(ch.randint(2, 6))))}


def bits32(x):
    return int(np.float32(x).view(np.uint32))


def bits64(x):
    return int(np.float64(x).view(np.uint64))

"""The only PRNG the harness owns.

``Choices(seed)`` wraps ``random.Random``; sub-streams are derived with
``mix(seed, tag)`` so that shrinking one part of a case (say the scenario)
does not shift the draws of another part (say the schedule).
Nothing here reads a clock or the environment.
"""
import hashlib
import random


def mix(seed, tag) -> int:
    """Derive an independent 62-bit seed from (seed, tag)."""
    h = hashlib.sha256(f"{seed}:{tag}".encode()).digest()
    return int.from_bytes(h[:8], "big") >> 2


class Choices:
    def __init__(self, seed: int):
        self.seed = int(seed)
        self._r = random.Random(self.seed)
        self.n = 0

    def sub(self, tag) -> "Choices":
        return Choices(mix(self.seed, tag))

    def subseed(self, tag) -> int:
        return mix(self.seed, tag)

    # draws ---------------------------------------------------------------
    def random(self) -> float:
        self.n += 1
        return self._r.random()

    def coin(self, p: float) -> bool:
        self.n += 1
        return self._r.random() < p

    def randint(self, a: int, b: int) -> int:
        """inclusive"""
        self.n += 1
        return self._r.randint(a, b)

    def uniform(self, a: float, b: float) -> float:
        self.n += 1
        return self._r.uniform(a, b)

    def choice(self, seq):
        self.n += 1
        return seq[self._r.randrange(len(seq))]

    def weighted(self, pairs):
        """pairs: [(item, weight), ...]"""
        self.n += 1
        tot = sum(w for _, w in pairs)
        x = self._r.random() * tot
        acc = 0.0
        for item, w in pairs:
            acc += w
            if x < acc:
                return item
        return pairs[-1][0]

    def sample(self, seq, k):
        self.n += 1
        return self._r.sample(list(seq), k)

    def shuffled(self, seq):
        self.n += 1
        lst = list(seq)
        self._r.shuffle(lst)
        return lst

    def gauss(self, mu, sigma):
        self.n += 1
        return self._r.gauss(mu, sigma)

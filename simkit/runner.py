"""Batch runner: seeded search over many simulated runs on all cores.

The parent imports the package once (numba compiles eagerly, ~15 s), then
forks worker processes; each run index i gets seed mix(VERIF_SEED, "<ID>:i"),
from which the check derives the whole case (scenario, worker count, fault
plan, schedule).  Workers have fd 1 redirected so solver chatter can neither
fake nor hide a VIOLATION line; only the parent prints.

Exit codes: 0 = property held on everything explored (known findings are
printed as KNOWN-FINDING lines), 1 = new violation (VIOLATION line + replay
file), 2 = harness error (never believed as a verdict).
"""
import faulthandler
import hashlib
import json
import logging
import multiprocessing as mp
import multiprocessing.connection as mpc
import os
import signal
import sys
import time
import traceback
import warnings

from .choices import Choices, mix

VERIF_DIR = os.path.dirname(os.path.dirname(os.path.abspath(__file__)))
EVIDENCE_DIR = os.environ.get("VERIF_EVIDENCE_DIR") or os.path.join(VERIF_DIR, "evidence")
REPLAY_DIR = os.environ.get("VERIF_REPLAY_DIR") or os.path.join(VERIF_DIR, "replays")
KNOWN_FILE = os.path.join(VERIF_DIR, "known_findings.json")


def digest(obj) -> str:
    return hashlib.sha256(json.dumps(obj, sort_keys=True, default=str).encode()).hexdigest()[:16]


# --------------------------------------------------------------------------
# known findings
# --------------------------------------------------------------------------
def load_known(prop):
    try:
        with open(KNOWN_FILE) as f:
            data = json.load(f)
    except FileNotFoundError:
        return []
    return [e for e in data.get("findings", []) if e.get("property") == prop and e.get("status") == "known"]


def match_known(known, violation):
    """A known finding lists the violation kind and a dict of signature
    fields that must all be equal in the violation's 'sig'."""
    sig = violation.get("sig", {})
    for e in known:
        if e.get("kind") != violation.get("kind"):
            continue
        m = e.get("match", {})
        if all(sig.get(k) == v for k, v in m.items()):
            return e
    return None


# --------------------------------------------------------------------------
# child side
# --------------------------------------------------------------------------
def _child_setup():
    devnull = os.open(os.devnull, os.O_WRONLY)
    os.dup2(devnull, 1)
    os.close(devnull)
    logging.disable(logging.WARNING)
    warnings.filterwarnings("ignore")
    signal.signal(signal.SIGINT, signal.SIG_IGN)


def safe_run(check, case):
    """Run one case; harness failures come back as {'harness_error': ...}."""
    from . import sched as _sched
    try:
        res = check.run(case)
        res.setdefault("violations", [])
        res.setdefault("stats", {})
        res.setdefault("keys", {})
        if "event_digest" not in res:
            # result digest + every simulation counter (yield points, switches, jobs, solver calls ...)
            res["event_digest"] = digest([res.get("digest"),
                                          sorted((k, v) for k, v in res["stats"].items() if not k.startswith("nondet_"))])
        return res
    except _sched.HarnessError as e:
        return {"harness_error": f"{type(e).__name__}: {e}", "violations": [], "stats": {}, "keys": {}}
    except BaseException as e:  # noqa: BLE001
        return {"harness_error": "".join(traceback.format_exception(type(e), e, e.__traceback__))[-3000:],
                "violations": [], "stats": {}, "keys": {}}


def _fresh_objects():
    """Shrink candidates are judged like a replay will be: with no library object left over from earlier
    runs of this worker process (the per-process cache of dissimilarity objects is emptied)."""
    try:
        from . import world
        world._DISSIM_CACHE.clear()
    except Exception:  # noqa: BLE001
        pass


def _shrink(check, case, violation, budget_s, max_tries):
    """Greedy structural shrinking: keep a candidate only if the *same kind*
    of violation of this property still occurs."""
    if not hasattr(check, "shrink_candidates"):
        return case, violation, 0
    t_end = time.time() + budget_s
    tries = 0
    improved = True
    kind = violation["kind"]
    while improved and time.time() < t_end and tries < max_tries:
        improved = False
        for cand in check.shrink_candidates(case, violation):
            if time.time() >= t_end or tries >= max_tries:
                break
            tries += 1
            _fresh_objects()
            res = safe_run(check, cand)
            if res.get("harness_error"):
                continue
            same = [v for v in res["violations"] if v["kind"] == kind]
            if same:
                case, violation = cand, same[0]
                improved = True
                break
    return case, violation, tries


RSS_LIMIT_MB = int(os.environ.get("VERIF_WORKER_RSS_MB", "1400"))


def _rss_mb():
    try:
        with open("/proc/self/statm") as f:
            return int(f.read().split()[1]) * (os.sysconf("SC_PAGE_SIZE") / 1048576.0)
    except Exception:  # noqa: BLE001
        return 0.0


def _child_main(check, conn, verif_seed, tier):
    _child_setup()
    while True:
        try:
            msg = conn.recv()
        except EOFError:
            return
        if msg is None:
            return
        kind = msg[0]
        try:
            if kind == "run":
                idx = msg[1]
                seed = mix(verif_seed, f"{check.ID}:{idx}")
                t0 = time.time()
                case = check.gen(Choices(seed), tier)
                res = safe_run(check, case)
                res["idx"] = idx
                res["seed"] = seed
                res["wall"] = time.time() - t0
                if res["violations"] or res.get("harness_error") or msg[2]:
                    res["case"] = case
                # the solver stack (cvxpy / CBC / numba typed lists) keeps growing in a long-lived process: a worker
                # that has grown beyond the limit asks to be replaced by a fresh fork of the parent
                recycle = _rss_mb() > RSS_LIMIT_MB
                if recycle:
                    res["_recycle"] = True
                conn.send(res)
                if recycle:
                    return
            elif kind == "case":
                res = safe_run(check, msg[1])
                res["case"] = msg[1]
                conn.send(res)
            elif kind == "shrink":
                case, viol, tries = _shrink(check, msg[1], msg[2], msg[3], msg[4])
                conn.send({"case": case, "violation": viol, "tries": tries})
        except BaseException as e:  # noqa: BLE001
            try:
                conn.send({"harness_error": "child: " + "".join(traceback.format_exception(type(e), e, e.__traceback__))[-3000:],
                           "violations": [], "stats": {}, "keys": {}, "idx": msg[1] if kind == "run" else -1})
            except Exception:
                return


class Worker:
    def __init__(self, ctx, check, verif_seed, tier):
        self.parent_conn, child_conn = ctx.Pipe(duplex=True)
        self.proc = ctx.Process(target=_child_main, args=(check, child_conn, verif_seed, tier), daemon=True)
        self.proc.start()
        child_conn.close()
        self.busy_since = None
        self.task = None

    def send(self, task):
        self.task = task
        self.busy_since = time.time()
        self.parent_conn.send(task)

    def kill(self):
        try:
            self.proc.kill()
            self.proc.join(2)
        except Exception:
            pass
        try:
            self.parent_conn.close()
        except Exception:
            pass

    def stop(self):
        try:
            self.parent_conn.send(None)
        except Exception:
            pass
        self.proc.join(2)
        if self.proc.is_alive():
            self.kill()


# --------------------------------------------------------------------------
# aggregation
# --------------------------------------------------------------------------
class Agg:
    def __init__(self):
        self.stats = {}
        self.keys = {}
        self.evaluations = 0
        self.samples = []
        self.harness_errors = []
        self.violations = []     # (violation, case, seed)
        self.run_wall = 0.0
        self.records = {}
        self.event_digests = {}

    def add(self, res, want_sample):
        self.evaluations += 1
        self.run_wall += res.get("wall", 0.0)
        self.stats["max_run_wall_s"] = max(self.stats.get("max_run_wall_s", 0), round(res.get("wall", 0.0), 1))
        for k, v in res.get("stats", {}).items():
            if k.startswith("max_"):
                self.stats[k] = max(self.stats.get(k, 0), v)
            else:
                self.stats[k] = self.stats.get(k, 0) + v
        for k, vals in res.get("keys", {}).items():
            s = self.keys.setdefault(k, set())
            for v in vals:
                s.add(v)
        if res.get("record") is not None and res.get("idx") is not None:
            self.records[res["idx"]] = res["record"]
        if res.get("idx") is not None:
            self.event_digests[res["idx"]] = [res.get("event_digest", res.get("digest")), res.get("digest")]
        if res.get("harness_error"):
            self.harness_errors.append({"seed": res.get("seed"), "idx": res.get("idx"), "error": res["harness_error"]})
        for v in res.get("violations", []):
            self.violations.append((v, res.get("case"), res.get("seed")))
        if want_sample and res.get("sample") is not None and len(self.samples) < 4:
            self.samples.append(res["sample"])


def write_evidence(check, tier, verif_seed, agg, wall, n_new, n_known, extra=None):
    os.makedirs(EVIDENCE_DIR, exist_ok=True)
    keys = {k: len(v) for k, v in agg.keys.items()}
    cov = {
        "evaluations": agg.evaluations,
        "distinct_nontrivial": keys.get("nontrivial", 0),
        "rule": check.RULE,
        "samples": agg.samples[:4] if agg.samples else [{"note": "no sample recorded"}],
        "distinct": keys,
        "counters": dict(sorted(agg.stats.items())),
        "runs_per_hour": round(agg.evaluations / wall * 3600) if wall > 0 else 0,
        "seeds_per_hour": round(agg.evaluations / wall * 3600) if wall > 0 else 0,
        "simulated_time": {"unit": "yield points (the library reads no clock on any result path)",
                           "total": agg.stats.get("steps", 0)},
        "fault_kinds_fired": {k[len("fault_"):]: v for k, v in sorted(agg.stats.items()) if k.startswith("fault_")},
        "components": getattr(check, "COMPONENTS", {}),
        "known_findings_seen": n_known,
        "harness_errors": len(agg.harness_errors),
        "processes": getattr(check, "_procs_used", None),
    }
    if extra:
        cov.update(extra)
    ev = {
        "property_id": check.ID,
        "tier": tier,
        "seed": int(verif_seed),
        "level": check.LEVEL,
        "coverage": cov,
        "assumptions": list(getattr(check, "ASSUMPTIONS", [])),
        "wall_s": round(wall, 2),
        "violations": n_new,
    }
    path = os.path.join(EVIDENCE_DIR, f"{check.ID}.json")
    tmp = path + ".tmp"
    with open(tmp, "w") as f:
        json.dump(ev, f, indent=1, default=str)
        f.write("\n")
    os.replace(tmp, path)
    return path


# --------------------------------------------------------------------------
# parent side
# --------------------------------------------------------------------------
def run_batch(check, tier, verif_seed, procs=None, runs=None, wall=None, digests_path=None):
    cfg = check.TIERS[tier]
    runs = runs if runs is not None else cfg["runs"]
    wall_budget = wall if wall is not None else cfg["wall"]
    run_timeout = int(os.environ.get("VERIF_RUN_TIMEOUT") or cfg.get("run_timeout", 180))
    procs = procs or min(16, os.cpu_count() or 1)
    check._procs_used = procs
    t0 = time.time()
    ctx = mp.get_context("fork")
    if hasattr(check, "warmup") and not digests_path:
        check.warmup(tier, verif_seed)
    workers = [Worker(ctx, check, verif_seed, tier) for _ in range(procs)]
    agg = Agg()
    next_idx = 0
    inflight = 0
    sample_every = max(1, runs // 4)
    hang_is_violation = getattr(check, "HANG_IS_VIOLATION", False)
    hang_candidates = []

    def feed(w):
        nonlocal next_idx, inflight
        if next_idx < runs and (time.time() - t0) < wall_budget:
            w.send(("run", next_idx, next_idx % sample_every == 0))
            next_idx += 1
            inflight += 1
            return True
        w.busy_since = None
        w.task = None
        return False

    for w in workers:
        feed(w)
    while inflight > 0:
        busy = [w for w in workers if w.busy_since is not None]
        ready = mpc.wait([w.parent_conn for w in busy], timeout=1.0)
        now = time.time()
        for w in busy:
            if w.parent_conn in ready:
                try:
                    res = w.parent_conn.recv()
                except (EOFError, ConnectionResetError, OSError):
                    res = {"harness_error": f"worker died on task {w.task!r}", "violations": [], "stats": {}, "keys": {},
                           "idx": w.task[1], "seed": mix(verif_seed, f"{check.ID}:{w.task[1]}")}
                    w.kill()
                    workers[workers.index(w)] = w = Worker(ctx, check, verif_seed, tier)
                inflight -= 1
                agg.add(res, True)
                if res.get("_recycle"):
                    agg.stats["workers_recycled"] = agg.stats.get("workers_recycled", 0) + 1
                    w.stop()
                    workers[workers.index(w)] = w = Worker(ctx, check, verif_seed, tier)
                feed(w)
            elif now - w.busy_since > run_timeout:
                idx = w.task[1]
                seed = mix(verif_seed, f"{check.ID}:{idx}")
                w.kill()
                inflight -= 1
                if hang_is_violation:
                    # judged after the batch, alone in a fresh worker and with twice the limit: a loaded or
                    # memory-starved machine must not be reported as "the computation does not return"
                    hang_candidates.append((idx, seed))
                else:
                    agg.evaluations += 1
                    agg.harness_errors.append({"seed": seed, "idx": idx, "error": f"run exceeded {run_timeout}s wall"})
                nw = Worker(ctx, check, verif_seed, tier)
                workers[workers.index(w)] = nw
                feed(nw)

    if digests_path:
        for w in workers:
            w.stop()
        with open(digests_path, "w") as f:
            json.dump({"digests": {str(k): v for k, v in sorted(agg.event_digests.items())},
                       "violations": len(agg.violations), "harness_errors": agg.harness_errors,
                       "hashseed": os.environ.get("PYTHONHASHSEED"), "procs": procs}, f)
        print(f"[{check.ID}] wrote {len(agg.event_digests)} event digests to {digests_path}")
        return 2 if agg.harness_errors else 0

    for idx, seed in hang_candidates:
        case = check.gen(Choices(seed), tier)
        w = Worker(ctx, check, verif_seed, tier)
        w.send(("case", case))
        agg.stats["slow_runs_retried_alone"] = agg.stats.get("slow_runs_retried_alone", 0) + 1
        if w.parent_conn.poll(2 * run_timeout):
            try:
                res = w.parent_conn.recv()
                res["idx"], res["seed"] = idx, seed
                agg.add(res, False)
            except (EOFError, OSError):
                agg.evaluations += 1
                agg.harness_errors.append({"seed": seed, "idx": idx, "error": "worker died while re-running a slow case"})
            w.stop()
        else:
            w.kill()
            agg.evaluations += 1
            agg.violations.append(({"kind": "hang", "msg": f"run did not finish within {run_timeout}s wall in the batch, nor within "
                                                          f"{2 * run_timeout}s alone in a fresh process",
                                    "sig": {"hang": True}}, case, seed))

    # -- post-processing: known findings, shrinking, replay files -----------
    known = load_known(check.ID)
    known_seen = {}
    new = []
    for viol, case, seed in agg.violations:
        e = match_known(known, viol)
        if e is not None:
            known_seen.setdefault(e["id"], [e, 0])[1] += 1
        else:
            new.append((viol, case, seed))
    extra = {}
    if hasattr(check, "finalize"):
        fin = check.finalize(agg, tier, verif_seed)
        if fin:
            extra.update(fin.get("evidence", {}))
            for viol, case, seed in fin.get("violations", []):
                e = match_known(known, viol)
                if e is not None:
                    known_seen.setdefault(e["id"], [e, 0])[1] += 1
                else:
                    new.append((viol, case, seed))
            agg.harness_errors.extend(fin.get("harness_errors", []))

    replay_paths = []
    if new:
        os.makedirs(REPLAY_DIR, exist_ok=True)
        # distinct kinds first, shrink the first few
        seen_kinds = {}
        seen_pairs = set()
        for viol, case, seed in new:
            if (viol["kind"], seed) in seen_pairs:
                continue
            seen_pairs.add((viol["kind"], seed))
            seen_kinds.setdefault(viol["kind"], []).append((viol, case, seed))
        todo = []
        for kind, lst in seen_kinds.items():
            todo.extend(lst[:2])
        todo = todo[:6]
        idle = [w for w in workers]
        for n, (viol, case, seed) in enumerate(todo):
            shrunk = False
            tries = 0
            if case is not None and hasattr(check, "shrink_candidates") and n < 4:
                w = idle[n % len(idle)]
                try:
                    w.send(("shrink", case, viol, cfg.get("shrink_s", 60), cfg.get("shrink_tries", 300)))
                    if w.parent_conn.poll(cfg.get("shrink_s", 60) + 60):
                        out = w.parent_conn.recv()
                        if "case" in out and "violation" in out:
                            case, viol, tries = out["case"], out["violation"], out.get("tries", 0)
                            shrunk = True
                    else:
                        w.kill()
                        workers[workers.index(w)] = Worker(ctx, check, verif_seed, tier)
                        idle = [x for x in workers]
                except Exception:
                    pass
            path = os.path.join(REPLAY_DIR, f"{check.ID}-{seed}-{viol['kind']}.json")
            with open(path, "w") as f:
                json.dump({"property": check.ID, "seed": seed, "verif_seed": verif_seed, "tier": tier,
                           "violation": viol, "shrunk": shrunk, "shrink_tries": tries, "case": case,
                           "replay": f"bin/check {check.ID} --replay {path}"}, f, indent=1, default=str)
                f.write("\n")
            replay_paths.append((viol, path))
    for w in workers:
        w.stop()

    wall = time.time() - t0
    n_known = sum(c for _, c in known_seen.values())
    extra["new_violation_count"] = len(new)
    write_evidence(check, tier, verif_seed, agg, wall, len(new), n_known, extra)

    for fid, (e, cnt) in sorted(known_seen.items()):
        print(f"KNOWN-FINDING: property={check.ID} {e['id']}: {e['what']} (seen {cnt}x this run)")
    for viol, path in replay_paths:
        print(f"VIOLATION property={check.ID} replay={path}")
        print(f"  kind={viol['kind']} {viol.get('msg', '')[:400]}")
    if len(new) > len(replay_paths):
        print(f"  (+{len(new) - len(replay_paths)} further violations of the same kinds not written out)")
    print(f"[{check.ID}] tier={tier} seed={verif_seed} runs={agg.evaluations} new_violations={len(new)} "
          f"known={n_known} harness_errors={len(agg.harness_errors)} wall={wall:.1f}s "
          f"distinct={ {k: len(v) for k, v in agg.keys.items()} }")
    if agg.harness_errors:
        for he in agg.harness_errors[:5]:
            print(f"HARNESS-ERROR seed={he.get('seed')} idx={he.get('idx')}: {str(he.get('error'))[-1500:]}", file=sys.stderr)
        return 2 if not new else 1
    if new:
        return 1
    if agg.evaluations == 0:
        print("HARNESS-ERROR no run completed", file=sys.stderr)
        return 2
    return 0


def run_replay(check, path, timeout=300):
    with open(path) as f:
        doc = json.load(f)
    case = doc["case"]
    ctx = mp.get_context("fork")
    w = Worker(ctx, check, 0, "quick")
    w.send(("case", case))
    if not w.parent_conn.poll(timeout):
        w.kill()
        if getattr(check, "HANG_IS_VIOLATION", False):
            print(f"VIOLATION property={check.ID} replay={path}")
            print(f"  kind=hang replay did not finish within {timeout}s")
            return 1
        print("HARNESS-ERROR replay timed out", file=sys.stderr)
        return 2
    res = w.parent_conn.recv()
    w.stop()
    if res.get("harness_error"):
        print("HARNESS-ERROR " + res["harness_error"], file=sys.stderr)
        return 2
    known = load_known(check.ID)
    rc = 0
    for v in res["violations"]:
        e = match_known(known, v)
        if e is not None:
            print(f"KNOWN-FINDING: property={check.ID} {e['id']}: {e['what']}")
        else:
            print(f"VIOLATION property={check.ID} replay={path}")
            print(f"  kind={v['kind']} {v.get('msg', '')[:600]}")
            rc = 1
    if not res["violations"]:
        print(f"[{check.ID}] replay {path}: no violation")
    print(f"[{check.ID}] replay digest={res.get('digest')}")
    return rc


def main(check, argv=None):
    import argparse
    ap = argparse.ArgumentParser()
    ap.add_argument("--tier", default=os.environ.get("VERIF_TIER", "quick"), choices=["quick", "thorough"])
    ap.add_argument("--replay")
    ap.add_argument("--runs", type=int)
    ap.add_argument("--wall", type=float)
    ap.add_argument("--procs", type=int)
    ap.add_argument("--seed", type=int)
    ap.add_argument("--digests", help="selftest mode: write per-run event digests to this file, no evidence")
    args = ap.parse_args(argv)
    faulthandler.enable()
    verif_seed = args.seed if args.seed is not None else int(os.environ.get("VERIF_SEED", "0") or 0)
    if args.replay:
        return run_replay(check, args.replay)
    return run_batch(check, args.tier, verif_seed, procs=args.procs, runs=args.runs, wall=args.wall,
                     digests_path=args.digests)

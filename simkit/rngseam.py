"""RNG seam: the module-level functions of ``numpy.random`` (the only ones the
library uses) are wrapped.

record mode      : pass through to NumPy's global RandomState, log which
                   simulated thread drew and what law was requested; a draw is
                   also a scheduler yield point.
adversarial mode : an ``injector`` may replace the returned value by another
                   value *in the support of the requested law* (legal but
                   extreme).  The injector draws its coins from the run's
                   Choices, never from NumPy.

If the package stops calling these functions the seam simply sees nothing
(probe ``calls == 0``); checks then rely on seeded real draws only.
"""
import numpy as np

from . import sched as _sched

FUNCS = ("normal", "uniform", "choice", "random", "random_sample", "randint",
         "rand", "randn", "shuffle", "permutation", "standard_normal", "sample",
         "ranf", "exponential", "poisson", "binomial", "beta", "gamma")

NOINJECT = object()


class RngSeam:
    def __init__(self, injector=None, keep_log=True, log_cap=20000):
        self.injector = injector
        self.keep_log = keep_log
        self.log_cap = log_cap
        self.log = []            # (thread_id, fname)
        self.calls = 0
        self.by_thread = {}
        self.by_func = {}
        self.injected = {}
        self.seed_calls = 0
        self._orig = {}
        self._installed = False

    def _wrap(self, fname, real):
        seam = self

        def wrapper(*args, **kwargs):
            s = _sched.ACTIVE
            tid = 0
            if s is not None:
                s.yield_point("rng")
                cur = s.current
                tid = cur.id if cur is not None else -1
            seam.calls += 1
            seam.by_thread[tid] = seam.by_thread.get(tid, 0) + 1
            seam.by_func[fname] = seam.by_func.get(fname, 0) + 1
            if seam.keep_log and len(seam.log) < seam.log_cap:
                seam.log.append((tid, fname))
            inj = seam.injector
            if inj is not None:
                v = inj(fname, args, kwargs, real)
                if v is not NOINJECT:
                    seam.injected[fname] = seam.injected.get(fname, 0) + 1
                    return v
            return real(*args, **kwargs)
        wrapper.__name__ = fname
        wrapper._sim_rng_wrapper = True
        return wrapper

    def install(self):
        if self._installed:
            return
        for f in FUNCS:
            real = getattr(np.random, f, None)
            if real is None or getattr(real, "_sim_rng_wrapper", False):
                continue
            self._orig[f] = real
            setattr(np.random, f, self._wrap(f, real))
        real_seed = np.random.seed
        self._orig["seed"] = real_seed
        seam = self

        def seed_wrapper(*a, **k):
            seam.seed_calls += 1
            return real_seed(*a, **k)
        seed_wrapper._sim_rng_wrapper = True
        np.random.seed = seed_wrapper
        self._installed = True

    def uninstall(self):
        for f, real in self._orig.items():
            setattr(np.random, f, real)
        self._orig.clear()
        self._installed = False

    def __enter__(self):
        self.install()
        return self

    def __exit__(self, *exc):
        self.uninstall()
        return False

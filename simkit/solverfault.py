"""MIP back-end faults.

The library solves with CBC when ``import cylp`` works and the solve does not
raise ``cvxpy.SolverError``; otherwise it falls back to GLPK_MI.  Two fault
kinds reach that seam without touching the repository:

cbc_import_error : ``sys.modules['cylp'] = None`` -> ``import cylp`` raises
cbc_solver_error : a wrapper on ``cvxpy.Problem.solve`` raises
                   ``cvxpy.SolverError`` for solver=CBC at planned call
                   indices (a list, or 'all')

Every solve is recorded with its solver and simulated thread so that checks
can tell whether the fallback really ran (a fault "fired" only if a GLPK_MI
solve was observed after it).
"""
import sys

import cvxpy as cp

from . import sched as _sched

_MISSING = object()


class SolverFaults:
    def __init__(self, mode="none", fail=None):
        assert mode in ("none", "import_error", "solver_error")
        self.mode = mode
        self.fail = fail            # None | 'all' | iterable of CBC call indices
        self.fail_set = None if fail in (None, "all") else set(fail)
        self.calls = []             # (thread, solver, injected)
        self.cbc_calls = 0
        self.glpk_calls = 0
        self.other_calls = 0
        self.injected = 0
        self.fired = 0              # injected faults followed by a GLPK_MI solve
        self._pending = {}          # thread -> injected faults awaiting fallback
        self._saved_cylp = _MISSING
        self._real_solve = None

    def describe(self):
        f = self.fail if self.fail in (None, "all") else sorted(self.fail_set)
        return {"mode": self.mode, "fail": f}

    def install(self):
        if self.mode == "import_error":
            self._saved_cylp = sys.modules.get("cylp", _MISSING)
            sys.modules["cylp"] = None
        real = cp.Problem.solve
        self._real_solve = real
        me = self

        def solve(prob, *args, **kwargs):
            solver = kwargs.get("solver")
            s = _sched.ACTIVE
            tid = s.current.id if (s is not None and s.current is not None) else 0
            if solver == cp.CBC:
                idx = me.cbc_calls
                me.cbc_calls += 1
                inject = me.mode == "solver_error" and (
                    me.fail == "all" or (me.fail_set is not None and idx in me.fail_set))
                me.calls.append((tid, "CBC", inject))
                if inject:
                    me.injected += 1
                    me._pending[tid] = me._pending.get(tid, 0) + 1
                    raise cp.SolverError("injected by simulator: CBC unavailable for this solve")
            elif solver == cp.GLPK_MI:
                me.glpk_calls += 1
                me.calls.append((tid, "GLPK_MI", False))
                if me.mode == "import_error":
                    me.fired += 1
                elif me._pending.get(tid, 0) > 0:
                    me._pending[tid] -= 1
                    me.fired += 1
            else:
                me.other_calls += 1
                me.calls.append((tid, str(solver), False))
            return real(prob, *args, **kwargs)

        cp.Problem.solve = solve

    def uninstall(self):
        if self._real_solve is not None:
            cp.Problem.solve = self._real_solve
            self._real_solve = None
        if self.mode == "import_error":
            if self._saved_cylp is _MISSING:
                sys.modules.pop("cylp", None)
            else:
                sys.modules["cylp"] = self._saved_cylp
            self._saved_cylp = _MISSING

    def __enter__(self):
        self.install()
        return self

    def __exit__(self, *exc):
        self.uninstall()
        return False


def cbc_available() -> bool:
    try:
        import cylp  # noqa: F401
    except Exception:
        return False
    return "CBC" in cp.installed_solvers()

"""Call monitors on the library's public alignment entry points.

The wrappers are installed on the ``Continuum`` class for the duration of a
check; they record every call (receiver, simulated thread, nesting depth per
thread, result or exception) and can run a post-condition callback on each
returned alignment *at the moment it is returned* (needed for alignments of
temporary window continua inside the fast algorithm).
"""
import threading

from pygamma_agreement.continuum import Continuum

from . import sched as _sched

METHODS = ("get_best_alignment", "get_best_soft_alignment", "get_fast_alignment")


class CallRecord:
    __slots__ = ("method", "receiver", "thread", "depth", "result", "error", "args", "seq")

    def __init__(self, method, receiver, thread, depth, args, seq):
        self.method = method
        self.receiver = receiver
        self.thread = thread
        self.depth = depth
        self.args = args
        self.result = None
        self.error = None
        self.seq = seq


class AlignmentMonitor:
    def __init__(self, on_return=None, on_call=None, methods=METHODS):
        self.on_return = on_return
        self.on_call = on_call
        self.methods = methods
        self.calls = []
        self._depth = {}
        self._orig = {}

    def _tid(self):
        s = _sched.ACTIVE
        if s is not None and s.current is not None:
            return s.current.id
        return ("real", threading.get_ident())

    def install(self):
        mon = self
        for name in self.methods:
            orig = getattr(Continuum, name)
            self._orig[name] = orig

            def make(name, orig):
                def wrapper(self_, *args, **kwargs):
                    tid = mon._tid()
                    d = mon._depth.get(tid, 0)
                    rec = CallRecord(name, self_, tid, d, args, len(mon.calls))
                    mon.calls.append(rec)
                    if mon.on_call is not None:
                        mon.on_call(rec)
                    mon._depth[tid] = d + 1
                    try:
                        res = orig(self_, *args, **kwargs)
                    except BaseException as e:
                        rec.error = e
                        raise
                    finally:
                        mon._depth[tid] = d
                    rec.result = res
                    if mon.on_return is not None:
                        mon.on_return(rec)
                    return res
                wrapper.__name__ = name
                wrapper._sim_monitor = True
                return wrapper
            setattr(Continuum, name, make(name, orig))
        return self

    def uninstall(self):
        for name, orig in self._orig.items():
            setattr(Continuum, name, orig)
        self._orig.clear()

    def __enter__(self):
        return self.install()

    def __exit__(self, *exc):
        self.uninstall()
        return False

    def top_level(self):
        return [c for c in self.calls if c.depth == 0]

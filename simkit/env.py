"""Puts the library inside the simulator for the duration of one call.

Seams taken over (all are attributes looked up at call time, so /repo needs
no hook):

* ``ThreadPoolExecutor`` wherever a package module holds a reference to the
  real one, plus ``concurrent.futures(.thread).ThreadPoolExecutor`` for
  function-local imports, plus ``as_completed`` / ``wait``
* ``os.cpu_count``
* ``numpy.random.*`` (rngseam), ``cvxpy.Problem.solve`` / ``cylp`` (solverfault)
"""
import concurrent.futures as cf
import concurrent.futures._base as cf_base
import concurrent.futures.thread as cf_thread
import os
import sys

from . import executor as _ex
from . import sched as _sched
from .rngseam import RngSeam
from .solverfault import SolverFaults

import pygamma_agreement  # noqa: E402  (imported by the runner before forking)

PKG_DIR = os.path.dirname(os.path.abspath(pygamma_agreement.__file__)) + os.sep


def package_modules():
    return [m for n, m in list(sys.modules.items())
            if m is not None and (n == "pygamma_agreement" or n.startswith("pygamma_agreement."))]


class SimOutcome:
    __slots__ = ("value", "error", "sched", "exec_stats", "rng", "faults")

    def __init__(self):
        self.value = None
        self.error = None      # exception raised by the workload (not harness errors)
        self.sched = None
        self.exec_stats = None
        self.rng = None
        self.faults = None

    # summary numbers for evidence ---------------------------------------
    def summary(self):
        s = self.sched
        return {
            "steps": s.step,
            "switches": len(s.switch_log),
            "line_switches": s.in_job_switches,
            "threads": len(s.threads),
            "jobs": self.exec_stats.jobs,
            "pools": self.exec_stats.pools,
        }


def run_sim(fn, *, policy, workers=1, trace_lines=True, rng_injector=None,
            faults=None, max_steps=3_000_000, rng_log=True, extra_prefixes=(), watcher=None, trace_opcodes=False):
    """Run fn() under the simulator.  ``policy`` is a spec dict (see
    sched.make_policy).  Exceptions raised by the workload are captured in
    outcome.error; HarnessError propagates."""
    out = SimOutcome()
    pol = _sched.make_policy(policy)
    sch = _sched.Scheduler(pol, trace_lines=trace_lines,
                           trace_prefixes=(PKG_DIR,) + tuple(extra_prefixes),
                           max_steps=max_steps, trace_opcodes=trace_opcodes)
    out.sched = sch
    stats = _ex.ExecutorStats()
    out.exec_stats = stats
    rng = RngSeam(injector=rng_injector, keep_log=rng_log)
    out.rng = rng
    flt = faults if faults is not None else SolverFaults("none")
    out.faults = flt

    saved = []

    def patch(obj, name, val):
        saved.append((obj, name, getattr(obj, name)))
        setattr(obj, name, val)

    real_tpe = _ex.RealThreadPoolExecutor
    try:
        for m in package_modules():
            for k, v in list(vars(m).items()):
                if v is real_tpe:
                    patch(m, k, _ex.SimExecutor)
                elif v is _ex._real_as_completed:
                    patch(m, k, _ex.sim_as_completed)
                elif v is _ex._real_wait:
                    patch(m, k, _ex.sim_wait)
        patch(cf, "ThreadPoolExecutor", _ex.SimExecutor)
        patch(cf_thread, "ThreadPoolExecutor", _ex.SimExecutor)
        patch(cf, "as_completed", _ex.sim_as_completed)
        patch(cf_base, "as_completed", _ex.sim_as_completed)
        patch(cf, "wait", _ex.sim_wait)
        patch(cf_base, "wait", _ex.sim_wait)
        w = int(workers)
        patch(os, "cpu_count", lambda: w)
        _ex.STATS = stats
        rng.install()
        flt.install()
        target = fn
        if watcher is not None:
            # an observer thread: evaluates watcher() between the steps of the other threads for as long as
            # the workload runs (invariants checked while the run proceeds); it is torn down with the simulation
            def target():
                def observe():
                    while True:
                        watcher()
                        sch.yield_away("watch")
                sch.spawn(observe, "watcher")
                return fn()
        try:
            out.value = sch.run(target)
        except _sched.HarnessError:
            raise
        except _sched.SimAbort:
            raise
        except BaseException as e:  # noqa: BLE001 - workload outcome, judged by the oracle
            out.error = e
    finally:
        flt.uninstall()
        rng.uninstall()
        _ex.STATS = None
        for obj, name, val in reversed(saved):
            setattr(obj, name, val)
    if sch.foreign_threads:
        raise _sched.HarnessError(
            f"{sch.foreign_threads} thread start(s)/yield(s) outside the simulator's control")
    return out

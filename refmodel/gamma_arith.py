"""Reference arithmetic of the gamma computation (float64, plain Python)."""
import math

PRECISION_NAMES = {"high": 0.01, "medium": 0.02, "low": 0.1}


def precision_value(p):
    return PRECISION_NAMES[p] if isinstance(p, str) else p


def n_required_band(first_batch, precision, rel=3e-4):
    """Acceptable values of N_required = ceil((1.96*CV/precision)^2).

    CV = sigma/mu of the first batch of chance disorders.  The statement does
    not say whether sigma is the population or the sample deviation, and the
    library evaluates CV in float32, so every integer obtained for either
    deviation and for CV*(1 +- rel) is accepted.  Returns None when CV is
    undefined (mean 0)."""
    n = len(first_batch)
    xs = [float(x) for x in first_batch]
    mu = sum(xs) / n
    if mu == 0:
        return None
    ss = sum((x - mu) ** 2 for x in xs)
    sigmas = [math.sqrt(ss / n)]
    if n > 1:
        sigmas.append(math.sqrt(ss / (n - 1)))
    p = precision_value(precision)
    vals = set()
    for s in sigmas:
        cv = s / mu
        lo = math.ceil((cv * (1 - rel) * 1.96 / p) ** 2 * (1 - 1e-9))
        hi = math.ceil((cv * (1 + rel) * 1.96 / p) ** 2)
        vals.update(range(lo, hi + 1))
    return vals


def expected_disorder(chance):
    return sum(float(x) for x in chance) / len(chance)


def gamma(observed, chance):
    if float(observed) == 0:
        return 1.0
    return 1.0 - float(observed) / expected_disorder(chance)

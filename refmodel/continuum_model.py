"""Reference model of a Continuum: a plain set of (start, end, label) per
annotator, the set of labels ever added, and the extent of everything added
since creation / the last bounds reset."""
import copy


def unit_key(u):
    s, e, l = u
    return (s, e, (0, "") if l is None else (1, l))


class ModelContinuum:
    def __init__(self):
        self.annot = {}           # name -> set of (start, end, label)
        self.cats = set()         # labels ever added (upper bound for the library's categories)
        self.cats_lower = set()   # labels that must be present: in use, or carried by copy/merge
        self.ext_min = None       # extent of every unit added since creation / last reset
        self.ext_max = None

    def clone(self):
        return copy.deepcopy(self)

    # -- mutations ----------------------------------------------------------
    def add_annotator(self, a):
        self.annot.setdefault(a, set())

    def add(self, a, s, e, label):
        self.annot.setdefault(a, set()).add((s, e, label))
        if label is not None:
            self.cats.add(label)
        self.ext_min = s if self.ext_min is None else min(self.ext_min, s)
        self.ext_max = e if self.ext_max is None else max(self.ext_max, e)

    def remove(self, a, s, e, label):
        self.annot[a].remove((s, e, label))

    def reset_bounds(self):
        us = [u for v in self.annot.values() for u in v]
        if us:
            self.ext_min = min(u[0] for u in us)
            self.ext_max = max(u[1] for u in us)
        else:
            self.ext_min = self.ext_max = None

    def merge_from(self, other):
        for a in other.annot:
            self.add_annotator(a)
        for a, us in other.annot.items():
            for (s, e, l) in us:
                self.add(a, s, e, l)

    def flushed(self):
        m = ModelContinuum()
        m.ext_min, m.ext_max = self.ext_min, self.ext_max
        return m

    # -- observations -------------------------------------------------------
    def annotators(self):
        return sorted(self.annot)

    def units(self, a):
        return sorted(self.annot[a], key=unit_key)

    def num_units(self):
        return sum(len(v) for v in self.annot.values())

    def in_use(self):
        return {u[2] for v in self.annot.values() for u in v if u[2] is not None}

    def content(self):
        return tuple((a, tuple(self.units(a))) for a in self.annotators())

"""Independent reference model for alignments.

* pair costs are obtained by calling the dissimilarity's own compiled kernel
  (``d_mat``) on ONE pair at a time, on arrays built here (whether the kernel
  matches its documented formula is property C04, which is not a simulation
  target; re-deriving formulas here would let C04's input-only defects leak
  into C02/C11 as false alarms);
* aggregation into unitary / alignment disorder is re-implemented in float64;
* the exact optimum over ALL (unpruned) candidate unitary alignments is
  computed by dynamic programming over unit bitmasks (partition and cover),
  and for medium sizes by an independent MILP (scipy / HiGHS).
"""
import itertools
from functools import lru_cache

import numpy as np


def _categories(dissim, continuum):
    return continuum.categories if dissim.categories is None else dissim.categories


def unit_array(unit, cats):
    seg = unit.segment
    return np.array([seg.start, seg.end, seg.duration, cats.index(unit.annotation)], dtype=np.float32)


class PairCosts:
    """cost[(ia, ua), (ib, ub)] for units of different annotators, via d_mat."""

    def __init__(self, continuum, dissim):
        self.dissim = dissim
        self.delta_empty = float(dissim.delta_empty)
        cats = _categories(dissim, continuum)
        self.annotators = list(continuum.annotators)
        self.units = [list(continuum._annotations[a]) for a in self.annotators]
        self.arrays = [[unit_array(u, cats) for u in us] for us in self.units]
        self.n = len(self.annotators)
        self._cache = {}

    def cost(self, ia, ua, ib, ub):
        """ua / ub are unit indices, None = empty unit."""
        if ua is None or ub is None:
            return self.delta_empty
        key = (ia, ua, ib, ub) if ia < ib else (ib, ub, ia, ua)
        v = self._cache.get(key)
        if v is None:
            v = float(self.dissim.d_mat(self.arrays[ia][ua], self.arrays[ib][ub]))
            self._cache[key] = v
        return v

    def unitary(self, tup):
        """tup: unit index or None per annotator -> disorder (mean over C(n,2) pairs)"""
        n = self.n
        tot = 0.0
        for i in range(n):
            for j in range(i):
                tot += self.cost(i, tup[i], j, tup[j])
        return tot / (n * (n - 1) // 2)

    @property
    def num_units(self):
        return sum(len(u) for u in self.units)

    @property
    def avg_units(self):
        return self.num_units / self.n

    def candidates_count(self):
        c = 1
        for us in self.units:
            c *= len(us) + 1
        return c - 1


def alignment_disorder_from_units(pc: PairCosts, alignment):
    """Recompute the disorder of a library Alignment from its own units."""
    idx = [{u: k for k, u in enumerate(us)} for us in pc.units]
    apos = {a: i for i, a in enumerate(pc.annotators)}
    tot = 0.0
    for ua in alignment.unitary_alignments:
        tup = [None] * pc.n
        for annot, unit in ua.n_tuple:
            if unit is not None:
                tup[apos[annot]] = idx[apos[annot]][unit]
        tot += pc.unitary(tup)
    return tot / pc.avg_units


# --------------------------------------------------------------------------
# exact optimum by DP over bitmasks
# --------------------------------------------------------------------------
def _unit_bits(pc):
    bits = []
    b = 0
    for us in pc.units:
        bits.append(list(range(b, b + len(us))))
        b += len(us)
    return bits, b


def min_partition_dp(pc: PairCosts):
    """Minimum over all partitions of the units into unitary alignments of the
    sum of unitary disorders (not yet divided by avg units)."""
    bits, total = _unit_bits(pc)
    if total == 0:
        return 0.0
    owner = {}
    for ia, bl in enumerate(bits):
        for k, b in enumerate(bl):
            owner[b] = (ia, k)
    full = (1 << total) - 1
    n = pc.n

    @lru_cache(maxsize=None)
    def f(mask):
        if mask == full:
            return 0.0
        low = 0
        while mask >> low & 1:
            low += 1
        ia0, k0 = owner[low]
        options = []
        for ia in range(n):
            if ia == ia0:
                options.append([k0])
            else:
                options.append([None] + [k for k, b in enumerate(bits[ia]) if not mask >> b & 1])
        best = float("inf")
        for tup in itertools.product(*options):
            m2 = mask
            for ia, k in enumerate(tup):
                if k is not None:
                    m2 |= 1 << bits[ia][k]
            v = pc.unitary(tup) + f(m2)
            if v < best:
                best = v
        return best

    return f(0)


def min_cover_dp(pc: PairCosts):
    """Minimum over all covers (each unit at least once)."""
    bits, total = _unit_bits(pc)
    if total == 0:
        return 0.0
    owner = {}
    for ia, bl in enumerate(bits):
        for k, b in enumerate(bl):
            owner[b] = (ia, k)
    full = (1 << total) - 1
    n = pc.n
    # precompute candidates containing each unit
    by_unit = {}
    for low in range(total):
        ia0, k0 = owner[low]
        options = [[k0] if ia == ia0 else [None] + list(range(len(bits[ia]))) for ia in range(n)]
        lst = []
        for tup in itertools.product(*options):
            m = 0
            for ia, k in enumerate(tup):
                if k is not None:
                    m |= 1 << bits[ia][k]
            lst.append((m, pc.unitary(tup)))
        by_unit[low] = lst

    @lru_cache(maxsize=None)
    def f(mask):
        if mask == full:
            return 0.0
        low = 0
        while mask >> low & 1:
            low += 1
        best = float("inf")
        for m, c in by_unit[low]:
            v = c + f(mask | m)
            if v < best:
                best = v
        return best

    return f(0)


# --------------------------------------------------------------------------
# independent MILP over the unpruned candidate set
# --------------------------------------------------------------------------
def min_milp(pc: PairCosts, cover=False):
    from scipy.optimize import milp, LinearConstraint, Bounds
    from scipy.sparse import lil_matrix
    bits, total = _unit_bits(pc)
    if total == 0:
        return 0.0
    options = [[None] + list(range(len(b))) for b in bits]
    tuples = [t for t in itertools.product(*options) if any(k is not None for k in t)]
    costs = np.array([pc.unitary(t) for t in tuples], dtype=np.float64)
    A = lil_matrix((total, len(tuples)))
    for j, t in enumerate(tuples):
        for ia, k in enumerate(t):
            if k is not None:
                A[bits[ia][k], j] = 1.0
    lo = np.ones(total)
    hi = np.full(total, np.inf) if cover else np.ones(total)
    res = milp(c=costs, constraints=LinearConstraint(A.tocsr(), lo, hi), integrality=np.ones(len(tuples)),
               bounds=Bounds(0, 1), options={"mip_rel_gap": 0.0})
    if not res.success:
        raise RuntimeError(f"oracle MILP failed: {res.message}")
    x = np.round(res.x)
    return float(costs @ x)


def optimum(pc: PairCosts, cover=False, dp_limit_units=None):
    """Returns (alignment disorder optimum, method)."""
    total = pc.num_units
    if dp_limit_units is None:
        dp_limit_units = 9 if cover else 12
    if total <= dp_limit_units and pc.candidates_count() <= 4000:
        s = min_cover_dp(pc) if cover else min_partition_dp(pc)
        return s / pc.avg_units, "dp"
    return min_milp(pc, cover) / pc.avg_units, "milp"


# --------------------------------------------------------------------------
# structure
# --------------------------------------------------------------------------
def structure_errors(alignment, continuum, cover=False):
    """Partition (or cover) oracle.  Returns a list of human-readable errors."""
    errs = []
    annotators = list(continuum.annotators)
    expected = {(a, u) for a in annotators for u in continuum._annotations[a]}
    seen = {}
    for i, ua in enumerate(alignment.unitary_alignments):
        tup = ua.n_tuple
        slots = [a for a, _ in tup]
        if sorted(slots) != sorted(annotators):
            errs.append(f"unitary alignment #{i} has slots {slots}, continuum annotators are {annotators}")
            continue
        real = 0
        for a, u in tup:
            if u is None:
                continue
            real += 1
            if (a, u) not in expected:
                errs.append(f"unitary alignment #{i} holds a unit foreign to the continuum: {a} -> {u}")
            seen[(a, u)] = seen.get((a, u), 0) + 1
        if real == 0:
            errs.append(f"unitary alignment #{i} contains no real unit")
    for key in expected:
        c = seen.get(key, 0)
        if c == 0:
            errs.append(f"unit {key[0]} -> {key[1]} is in no unitary alignment")
        elif c > 1 and not cover:
            errs.append(f"unit {key[0]} -> {key[1]} is in {c} unitary alignments")
    return errs


def close(a, b, rel=1e-5, abs_=1e-6):
    return abs(a - b) <= max(abs_, rel * max(1.0, abs(a), abs(b)))

"""Reference laws of the statistical sampler and the statistics to judge them.

Generative model (documented in the sampler's docstring): for each ground-truth
annotator, a number of units ~ |int(N(mu_n, s_n))|; then sequentially
gap ~ N(mu_g, s_g) from the previous unit's end (from 0 for the first),
duration ~ |N(mu_d, s_d)|, category ~ categorical(weights).
"""
import math


class Target:
    """Bands [lo, hi] for every parameter of the generative laws."""

    def __init__(self):
        self.n_mean = self.n_std = self.gap_mean = self.gap_std = self.dur_mean = self.dur_std = (0.0, 0.0)
        self.cat = {}

    def describe(self):
        return {k: getattr(self, k) for k in ("n_mean", "n_std", "gap_mean", "gap_std", "dur_mean", "dur_std", "cat")}


def targets_custom(p):
    t = Target()
    t.n_mean = (p["avg_n"], p["avg_n"])
    t.n_std = (p["std_n"], p["std_n"])
    t.gap_mean = (p["avg_gap"], p["avg_gap"])
    t.gap_std = (p["std_gap"], p["std_gap"])
    t.dur_mean = (p["avg_dur"], p["avg_dur"])
    t.dur_std = (p["std_dur"], p["std_dur"])
    cats = p["categories"]
    w = p["weights"] if p["weights"] is not None else [1.0 / len(cats)] * len(cats)
    t.cat = {c: (x, x) for c, x in zip(cats, w)}
    return t


def _mean(xs):
    return sum(xs) / len(xs)


def _stds(xs):
    m = _mean(xs)
    ss = sum((x - m) ** 2 for x in xs)
    out = [math.sqrt(ss / len(xs))]
    if len(xs) > 1:
        out.append(math.sqrt(ss / (len(xs) - 1)))
    return out


def _band(lists):
    means = [_mean(x) for x in lists if x]
    stds = [s for x in lists if x for s in _stds(x)]
    return (min(means), max(means)), (min(stds), max(stds))


def targets_measured(ref, sampler):
    """Band spanning the plain estimators (over all annotators or over the
    ground-truth annotators only; population or sample deviation; with or
    without the leading gaps) and the library's documented variant."""
    t = Target()
    gt = list(sampler._ground_truth_annotators)
    groups = [list(ref.annotators)]
    if sorted(gt) != sorted(groups[0]):
        groups.append(gt)
    count_lists, gap_lists, dur_lists = [], [], []
    for annots in groups:
        counts, consecutive, firsts, durs = [], [], [], []
        for a in annots:
            us = list(ref.iter_annotator(a))
            counts.append(float(len(us)))
            for u, v in zip(us, us[1:]):
                consecutive.append(v.segment.start - u.segment.end)
            if us:
                firsts.append(us[0].segment.start)
            durs.extend(u.segment.end - u.segment.start for u in us)
        count_lists.append(counts)
        gap_lists += [[0.0] + consecutive + [f for f in firsts if f > 0], consecutive + firsts, consecutive]
        dur_lists.append(durs)
    t.n_mean, t.n_std = _band(count_lists)
    t.gap_mean, t.gap_std = _band(gap_lists)
    t.dur_mean, t.dur_std = _band(dur_lists)
    labs = [u.annotation for _, u in ref]
    freqs = []
    for annots in groups:
        ls = [u.annotation for a in annots for u in ref.iter_annotator(a)]
        freqs.append({c: ls.count(c) / len(ls) for c in set(labs)})
    t.cat = {c: (min(f.get(c, 0.0) for f in freqs), max(f.get(c, 0.0) for f in freqs)) for c in set(labs)}
    return t


def recoverable(t):
    """Generation order is recoverable from the sorted output, abs() and the
    redraw loop are irrelevant, the non-emptiness guard is irrelevant."""
    s = math.sqrt(t.gap_std[1] ** 2 + t.dur_std[1] ** 2)
    # start(i+1) > start(i) needs gap > -duration: 6 joint deviations keep a mis-ordering below ~1e-9 per unit
    return (t.gap_mean[0] + t.dur_mean[0] >= 6 * s and t.gap_mean[0] + t.dur_mean[0] > 0
            and t.dur_mean[0] >= 6 * t.dur_std[1] and t.dur_mean[0] > 1e-3
            and t.n_mean[0] >= 3 * t.n_std[1] + 1)


class Observations:
    def __init__(self, annotators):
        self.annotators = annotators
        self.counts = []
        self.gaps = []
        self.durs = []
        self.labels = {}
        self.n_units = 0

    def add(self, sample):
        for a in self.annotators:
            us = list(sample.iter_annotator(a))
            self.counts.append(float(len(us)))
            last = 0.0
            for u in us:
                self.gaps.append(u.segment.start - last)
                self.durs.append(u.segment.end - u.segment.start)
                self.labels[u.annotation] = self.labels.get(u.annotation, 0) + 1
                last = u.segment.end
                self.n_units += 1


Z = 7.0


def _judge_normal(name, xs, mean_band, std_band, mean_slack=(0.0, 0.0), std_slack=0.0):
    out = []
    n = len(xs)
    if n < 30:
        return out
    m = _mean(xs)
    s = _stds(xs)[0]
    se = math.sqrt(std_band[1] ** 2 + std_slack ** 2) / math.sqrt(n)
    eps = 1e-9 * (1 + abs(m))
    lo = mean_band[0] - mean_slack[0] - Z * se - eps
    hi = mean_band[1] + mean_slack[1] + Z * se + eps
    if not (lo <= m <= hi):
        out.append((name + "_mean", f"{name}: sample mean {m:.6g} over {n} values outside [{lo:.6g}, {hi:.6g}] "
                                    f"(target mean band {mean_band}, deviation band {std_band})"))
    r = Z / math.sqrt(2 * n)
    slo = std_band[0] * (1 - r) - std_slack - eps
    shi = std_band[1] * (1 + r) + std_slack + eps
    if not (slo <= s <= shi):
        out.append((name + "_std", f"{name}: sample deviation {s:.6g} over {n} values outside [{slo:.6g}, {shi:.6g}] "
                                   f"(target deviation band {std_band})"))
    return out


def judge(obs, t):
    out = []
    # counts: |int(N)| - truncation vs rounding must not matter: mean in [mu-1, mu+0.5]; discretisation adds <= 0.3 to the deviation
    out += _judge_normal("count", obs.counts, t.n_mean, t.n_std, mean_slack=(1.0, 0.5), std_slack=0.35)
    out += _judge_normal("gap", obs.gaps, t.gap_mean, t.gap_std)
    out += _judge_normal("duration", obs.durs, t.dur_mean, t.dur_std)
    n = obs.n_units
    if n >= 100:
        for c, (plo, phi) in t.cat.items():
            f = obs.labels.get(c, 0) / n
            se = math.sqrt(max(phi * (1 - phi), plo * (1 - plo), 1e-12) / n)
            if not (plo - Z * se - 1.0 / n <= f <= phi + Z * se + 1.0 / n):
                out.append(("category", f"category {c!r}: frequency {f:.4f} over {n} units, target weight band ({plo:.4f}, {phi:.4f})"))
        extra = set(obs.labels) - set(t.cat)
        if extra:
            out.append(("category", f"labels outside the category list: {sorted(map(str, extra))}"))
    return out

"""Reference model of the categorical disorder behind gamma-cat / gamma-k.

Weighted mean of the categorical dissimilarity over co-aligned pairs of real
units, each pair weighted by 1/(k-1) (k real units in its unitary alignment)
times max(0, 1 - alpha*positional dissimilarity); unit/empty pairs count
delta_empty at weight delta_empty; for gamma-k only pairs involving the chosen
category count.  The two documented special values for alignments without any
co-aligned pair of real units passing the category filter (1.0 when no pair
passed the filter at all, else 0.0) are reproduced, as pinned by
tests/test_edge_case.py.
Pair values come from the public unit-to-unit functions of the two component
dissimilarities.
"""


def categorical_disorder(alignment, dissim, category=None):
    de = float(dissim.delta_empty)
    alpha = float(dissim.alpha)
    tot_d = 0.0
    tot_w = 0.0
    any_pair = False
    any_real_pair = False
    for ua in alignment.unitary_alignments:
        units = [u for _, u in ua.n_tuple]
        k = sum(1 for u in units if u is not None)
        base = 1.0 / (k - 1) if k >= 2 else 0.0
        for i in range(len(units)):
            for j in range(i + 1, len(units)):
                u1, u2 = units[i], units[j]
                if category is not None:
                    has = (u1 is not None and u1.annotation == category) or (u2 is not None and u2.annotation == category)
                    if not has:
                        continue
                any_pair = True
                if u1 is None and u2 is None:
                    continue
                if u1 is None or u2 is None:
                    tot_d += de * de
                    tot_w += de
                    continue
                any_real_pair = True
                conf = max(0.0, 1.0 - alpha * float(dissim.positional_dissim.d(u1, u2)))
                w = base * conf
                tot_d += float(dissim.categorical_dissim.d(u1, u2)) * w
                tot_w += w
    if not any_real_pair:
        return 1.0 if not any_pair else 0.0
    if tot_d == 0:
        return 0.0
    return tot_d / tot_w


def gamma_from_disorders(observed, chance, cat_variant):
    """cat_variant: 'cat' (gamma-cat: 0 when the mean chance disorder is 0) or 'k'.
    Returns None when the value is undefined (mean chance disorder 0 for gamma-k)."""
    if observed == 0:
        return 1.0
    mean = sum(chance) / len(chance)
    if mean == 0:
        return 0.0 if cat_variant == "cat" else None
    return 1.0 - observed / mean


def perfectly_categorised(alignment):
    """co-aligned units never differ in category and no unit is left unaligned"""
    for ua in alignment.unitary_alignments:
        units = [u for _, u in ua.n_tuple]
        if any(u is None for u in units):
            return False
        if len({u.annotation for u in units}) != 1:
            return False
    return True

#!/bin/bash
# usage: tools/verify_seed.sh <seed-name> <source-dir-with patch.diff demo.py NOTES.md> [--skip-suite]
# Confirms a seeded change in a fresh scratch worktree: demo passes without, fails with, suite passes with.
name=$1; src=$2; skip=$3
wt=/tmp/seedv/$name
log=/tmp/seedv/$name.log
mkdir -p /tmp/seedv; rm -rf "$wt"
git -C /repo worktree prune
git -C /repo worktree add --detach "$wt" HEAD -q || exit 2
cp "$src/demo.py" "$wt/demo.py"
{
cd "$wt"
echo "== demo WITHOUT change"; timeout 600 /venv/bin/python -W ignore demo.py > /tmp/seedv/$name.demo0.out 2>&1; r0=$?; echo "exit=$r0"; tail -3 /tmp/seedv/$name.demo0.out
git apply "$src/patch.diff" || { echo "PATCH DOES NOT APPLY"; exit 2; }
echo "== demo WITH change"; timeout 600 /venv/bin/python -W ignore demo.py > /tmp/seedv/$name.demo1.out 2>&1; r1=$?; echo "exit=$r1"; tail -3 /tmp/seedv/$name.demo1.out
if [ "$skip" != "--skip-suite" ]; then
  echo "== suite WITH change"; timeout 2400 /venv/bin/python -m pytest -q -p no:cacheprovider tests --deselect tests/test_cli.py > /tmp/seedv/$name.suite.out 2>&1; rs=$?; tail -1 /tmp/seedv/$name.suite.out
else rs=skipped; fi
echo "RESULT name=$name demo_without=$r0 demo_with=$r1 suite=$rs"
} > "$log" 2>&1
cd /; git -C /repo worktree remove --force "$wt"; git -C /repo worktree prune
tail -1 "$log"

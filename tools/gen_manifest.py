#!/venv/bin/python
"""Writes /verif/MANIFEST.json from the table below (keeps it valid and consistent)."""
import json
import os

ROOT = os.path.dirname(os.path.dirname(os.path.abspath(__file__)))

SIM = "deterministic simulation"
CHECKS = {
    "C01": dict(level="exploration", ref="3 C01",
                technique=f"{SIM}: MIP back-end fault injection (ImportError / SolverError) + simulated pool with seeded line-level "
                          "schedules, post-condition monitor on every returned alignment, wall watchdog for 'always returns'",
                text="seeded search: every shape family (2..5 annotators, empty annotators, ties, nested, unlabelled units) aligned "
                     "under the three solver configurations reachable by fault injection and inside pooled gamma computations "
                     "under seeded schedules; every returned alignment must be a partition and every call must return. "
                     "The shape variety is workload; the simulator contributes the back-end faults and the concurrent sharing.",
                note="trusts the partition oracle (refmodel.align_oracle.structure_errors); unlabelled units only with "
                     "dissimilarities defined on them; sampling, not proof"),
    "C02": dict(level="exploration", ref="3 C02/C11",
                technique=f"{SIM}: refinement against an executable reference model (exact DP / independent HiGHS MILP over the "
                          "unpruned candidate set) under injected MIP back-end faults",
                text="library optimum compared with an independent exact optimum on every seeded small/medium continuum under CBC "
                     "and under GLPK reached through both fault kinds. Schedule search is not relevant to this property; weakest "
                     "fit among the claimed ones, stated as such.",
                note="pair costs come from the dissimilarity's own kernel (C04 out of scope); oracle sizes bounded (DP<=12 units, "
                     "MILP<=3000 candidates)"),
    "C05": dict(level="exploration", ref="3 C05",
                technique=f"{SIM}: recorded history (sampler draws, per-job alignment calls) of compute_gamma in the simulated pool "
                          "under seeded schedules and partial solver faults, judged by a history oracle + reference arithmetic",
                text="counts against the precision formula (both batches), bijection drawn samples <-> chance alignments, "
                     "per-sample sequential recomputation, expected/gamma arithmetic, under permuted completion orders, 1..16 "
                     "workers and partial GLPK fallback.",
                note="CV may use population or sample deviation; named precision levels needing >1500 samples are replaced by "
                     "a numeric one; arithmetic clauses are workload-decided"),
    "C06": dict(level="exploration", ref="3 C06",
                technique=f"{SIM}: seeded schedule search (baton-passing real threads, line-level pre-emption, 1..16 workers, "
                          "random/PCT/main-ahead/eager policies) with a differential oracle against the canonical sequential "
                          "execution; fresh interpreters under other PYTHONHASHSEED values",
                text="every execution of a scenario must give bit-identical observed disorder, chance-disorder sequence, gamma, "
                     "gamma-cat and gamma-k; best fit of the technique.",
                note="pre-emption only between source lines of pygamma_agreement (C extensions atomic); FIFO dequeue as in CPython; "
                     "hash seeds sampled"),
    "C08": dict(level="fault_enumeration", ref="3 C08",
                technique=f"{SIM}: fault enumeration at the MIP back-end seam - for every k the k-th CBC solve of a pooled gamma "
                          "computation fails (plus all-fail, ImportError, random subsets); direct calls under all three "
                          "configurations",
                text="single-failure placements are enumerated exhaustively per scenario; results must be valid partitions / covers "
                     "with back-end independent disorders, and the GLPK solve after each injected failure must be observed.",
                note="the two fault kinds are exactly the conditions the library's except clause names; multi-failure subsets sampled"),
    "C10": dict(level="exploration", ref="3 C10",
                technique=f"{SIM}: bounded liveness under a deterministic progress monitor (units retired per window iteration, "
                          "yield-point budget) - no wall clock - plus partition / disorder oracles and pooled fast-mode gamma "
                          "routing under seeded schedules",
                text="every window size 1..ceil(units/annotators)+1 on overlap-heavy seeded continua; stall = no unit retired in "
                     "an iteration; result must be a partition, consistent, >= optimum, == optimum on whole-continuum windows.",
                note="progress observed at get_first_window; budget 400000 package lines as backstop"),
    "C11": dict(level="exploration", ref="3 C02/C11",
                technique=f"{SIM}: refinement against an executable reference model (exact minimum-cover DP / independent HiGHS "
                          "MILP) under injected MIP back-end faults",
                text="soft alignment: cover, well-formed, minimum over all covers, never above the partition optimum - under CBC and "
                     "GLPK reached through both fault kinds.",
                note="as C02; cover DP <= 9 units"),
    "C12": dict(level="exploration", ref="3 C12",
                technique=f"{SIM}: gamma_cat / gamma_k pools under seeded line-level schedules, aggregation and exception "
                          "propagation oracle; per-pair formula against a reference model (workload part)",
                text="pooled aggregation 1 - observed/mean(chance), <= 1, == 1 cases and TypeError propagation under every schedule; "
                     "the weighting rule is compared with refmodel.gammacat_model on every alignment produced (input-driven).",
                note="special values for alignments without co-aligned pairs taken from tests/test_edge_case.py; undefined "
                     "gamma-k (mean chance 0) skipped"),
    "C13": dict(level="exploration", ref="3 C13",
                technique=f"{SIM} (history dimension only): seeded operation histories against an executable reference model, "
                          "all observables compared after every operation, ddmin shrinking, explicit replay",
                text="histories of <=60 operations over <=4 continua, small alphabet with None labels and duplicates; no scheduler "
                     "or fault kind exists for this single-caller in-memory object.",
                note="categories judged as superset of labels in use / subset of labels ever added; equality for copies"),
    "C14": dict(level="exploration", ref="3 C14",
                technique=f"{SIM}: seeded world histories (computations incl. pooled gamma under line-level schedules, derivations, "
                          "mutations with new labels) with snapshot comparison of every world object after every operation",
                text="an operation may change only its designated target; everything else (inputs, sources of derived continua, "
                     "dissimilarities) must be bit-identical in its snapshot.",
                note="samplers/tools are stateful by design and not protected; documented best_window_size exception honoured"),
    "C15": dict(level="exploration", ref="3 C15",
                technique=f"{SIM}: RNG seam - every draw validated, alternate draws under an adversary returning legal extremes; "
                          "laws judged by z-tests over seeded real draws against a reference model of the generative laws",
                text="validity on every draw incl. zero-count / redraw branches forced by the adversary; counts, gaps, durations, "
                     "category frequencies within |z|<=7 bands in order-recoverable regimes.",
                note="statistical acceptance bands; measured-parameter targets are bands over plausible estimators"),
    "C16": dict(level="exploration", ref="3 C16",
                technique=f"{SIM}: RNG seam - pivots reconstructed from every draw, alternate draws under an adversary forcing "
                          "segment-end and near-collision pivots",
                text="every sampled annotator explained as a wrapped translation by one pivot; pivot separation on long-enough "
                     "continua with >= 3 annotators; integrality in integer mode.",
                note="reconstruction tolerance 1e-9 relative; 'long enough' is the sufficient condition length > k*avg_unit_length + 2; "
                     "integer pivots may lie up to 1 below bound_inf (truncation of a value drawn within the bounds)"),
    "C19": dict(level="exploration", ref="3 C19",
                technique=f"{SIM}: RNG seam - corpus validity and per-perturbation confinement on every trial, alternate trials "
                          "under an adversary returning legal extremes",
                text="all 64 flag combinations over the runs, magnitudes 0 / 1 / (0,1); each *_shuffle alone on "
                     "corpus_from_reference; reference never changed.",
                note="references have distinct segments; exceptions under adversarial draws are counted, not judged"),
    "C20": dict(level="exploration", ref="3 C20",
                technique=f"{SIM}: the whole CLI in-process under simulated pool, RNG seam, argv/stdout/directory-order stubs and "
                          "solver faults, compared with an API twin under a different schedule; option coverage by swarm "
                          "configuration",
                text="gamma / gamma-cat / gamma-k parsed from print, CSV and JSON equal the API values per file; each option away "
                     "from its default in a fraction of the runs. Thin fit: mostly configuration testing hosted in the simulator.",
                note="twin maps -d names to the documented dissimilarities; float32 text round-trip tolerance"),
}

NOT_APPLICABLE = [
    ("C03", "pure function of (alignment, dissimilarity): no schedule, fault, clock, RNG draw or history for its truth to depend on"),
    ("C04", "pure function of (unit pair, parameters); the self-check's three stdlib-random probes cannot affect a built-in dissimilarity"),
    ("C07", "pure function of (continuum, dissimilarity) computed in local buffers"),
    ("C09", "metamorphic relation between pure runs on related inputs; nothing for a scheduler or fault injector to vary"),
    ("C17", "pure predicate on (alignment, continuum)"),
    ("C18", "pure function of file content; the library promises nothing about interrupted or faulty I/O, so stream faults only yield another file content"),
]


def main():
    checks = []
    for pid, c in CHECKS.items():
        checks.append({
            "property_id": pid,
            "quick_cmd": f"bin/check {pid} --tier quick",
            "thorough_cmd": f"bin/check {pid} --tier thorough",
            "evidence_file": f"evidence/{pid}.json",
            "replay_cmd_template": f"bin/check {pid} --replay {{path}}",
            "engine": "simkit",
            "level_claimed": {"category": c["level"], "text": c["text"], "design_ref": f"DESIGN.md section {c['ref']}"},
            "level_note": c["note"],
            "technique": c["technique"],
        })
    manifest = {
        "version": 1,
        "setup_cmd": "bin/setup",
        "hooks": {
            "guard": "PYGAMMA_AGREEMENT_VERIF",
            "enable": "no source hook is needed or present: every seam (ThreadPoolExecutor, os.cpu_count, numpy.random.*, cylp "
                      "importability, cvxpy.Problem.solve, Continuum methods, sys.argv/stdout, Path.iterdir) is a module or class "
                      "attribute looked up at call time and is patched by simkit.env for the duration of one simulated call; "
                      "checks import the package straight from /repo's working tree (editable install)",
            "baseline_off_cmd": "cd /repo && /venv/bin/python -m pytest -ra -q -p no:cacheprovider --timeout=900 --continue-on-collection-errors",
            "source_commits": [],
            "add_only": True,
        },
        "engines": [{
            "name": "simkit", "path": "simkit/", "serves_properties": sorted(CHECKS),
            "kind_free_text": "deterministic simulation with fault injection: baton-passing real threads under a seeded scheduler "
                              "with line-level pre-emption (sys.settrace), simulated ThreadPoolExecutor, numpy.random seam with "
                              "legal-extreme adversary, MIP back-end fault injection, call monitors, executable reference models "
                              "(refmodel/), seeded batch runner with shrinking, replay files and determinism self-test",
        }],
        "checks": checks,
        "not_applicable": [{"property_id": p, "reason": r} for p, r in NOT_APPLICABLE],
        "notes": "bin/selftest re-executes run seeds in fresh interpreters / other process counts / another PYTHONHASHSEED and diffs "
                 "event-log digests. known_findings.json lists recorded (status known) and repaired (status fixed) defects. "
                 "mutants/ holds sensitivity mutants written by the author, seeded/ the independently produced ones.",
    }
    with open(os.path.join(ROOT, "MANIFEST.json"), "w") as f:
        json.dump(manifest, f, indent=1)
        f.write("\n")
    print("MANIFEST.json written:", len(checks), "checks,", len(NOT_APPLICABLE), "not applicable")


if __name__ == "__main__":
    main()

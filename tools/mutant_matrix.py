#!/venv/bin/python
"""Runs checks against mutants in parallel scratch worktrees (never touches /repo's working tree).

usage: tools/mutant_matrix.py [--jobs 4] [--procs 4] [--wall 45] [--dir mutants|seeded] [--only substr] [--out file]
For mutants/: INDEX.json lists the target checks.  For seeded/<id>/: patch.diff + meta.json (property).
"""
import argparse, json, os, subprocess, sys, shutil, time
from concurrent.futures import ThreadPoolExecutor

VERIF = os.path.dirname(os.path.dirname(os.path.abspath(__file__)))
SCRATCH = f"/dev/shm/mutant-matrix-{os.getpid()}"


def sh(cmd, **kw):
    return subprocess.run(cmd, shell=True, capture_output=True, text=True, **kw)


def run_one(slot, name, patch, checks, args):
    wt = f"{SCRATCH}/wt{slot}"
    sh(f"git -C {wt} checkout -q -- . && git -C {wt} clean -fdq")
    r = sh(f"git -C {wt} apply {patch}")
    if r.returncode != 0:
        return {"name": name, "error": "patch does not apply: " + r.stderr[-300:]}
    res = {"name": name, "checks": {}}
    for cid in (checks[:1] if args.primary_only else checks):
        env = dict(os.environ, VERIF_REPO=wt, VERIF_EVIDENCE_DIR=f"{SCRATCH}/ev{slot}", VERIF_REPLAY_DIR=f"{SCRATCH}/rp{slot}")
        t0 = time.time()
        if args.verif_seed is not None:
            env["VERIF_SEED"] = str(args.verif_seed)
        cmd = f"{VERIF}/bin/check {cid} --tier quick --procs {args.procs}" + ("" if args.full_budget else f" --wall {args.wall}")
        r = subprocess.run(cmd, shell=True, capture_output=True, text=True, env=env, cwd=VERIF)
        lines = [l for l in r.stdout.splitlines() if l.startswith("VIOLATION") or l.startswith("  kind=")]
        summary = [l for l in r.stdout.splitlines() if l.startswith(f"[{cid}]")]
        entry = {"exit": r.returncode, "wall": round(time.time() - t0, 1),
                 "first": lines[1][:300] if len(lines) > 1 else "", "summary": summary[-1][:200] if summary else r.stderr[-300:]}
        if r.returncode == 1 and lines:
            # replay the (shrunk) replay file in a fresh process on the changed tree: it must fail the same way
            path = lines[0].split("replay=", 1)[1].strip()
            kind = lines[1].strip().split(" ")[0] if len(lines) > 1 else ""
            rr = subprocess.run(f"{VERIF}/bin/check {cid} --replay {path}", shell=True, capture_output=True, text=True, env=env, cwd=VERIF)
            entry["replay_exit"] = rr.returncode
            entry["replay_same_kind"] = bool(kind and kind in rr.stdout)
            try:
                doc = json.load(open(path))
                entry["replay_shrunk"] = doc.get("shrunk")
                entry["replay_case_size"] = len(json.dumps(doc.get("case")))
            except Exception:
                pass
        res["checks"][cid] = entry
    sh(f"git -C {wt} checkout -q -- .")
    return res


def main():
    ap = argparse.ArgumentParser()
    ap.add_argument("--jobs", type=int, default=4)
    ap.add_argument("--procs", type=int, default=4)
    ap.add_argument("--wall", type=float, default=45)
    ap.add_argument("--dir", default="mutants")
    ap.add_argument("--only", default="")
    ap.add_argument("--out", default=None)
    ap.add_argument("--verif-seed", type=int, default=None, help="VERIF_SEED for the check runs")
    ap.add_argument("--primary-only", action="store_true", help="run only the first listed check of each entry")
    ap.add_argument("--full-budget", action="store_true", help="use the tier's own wall budget instead of --wall")
    args = ap.parse_args()
    todo = []
    if args.dir == "mutants":
        for m in json.load(open(f"{VERIF}/mutants/INDEX.json")):
            if args.only in m["name"]:
                todo.append((m["name"], f"{VERIF}/mutants/{m['name']}.diff", m["checks"]))
    else:
        for d in sorted(os.listdir(f"{VERIF}/seeded")):
            p = f"{VERIF}/seeded/{d}"
            if os.path.isdir(p) and args.only in d and os.path.exists(f"{p}/meta.json"):
                meta = json.load(open(f"{p}/meta.json"))
                todo.append((d, f"{p}/patch.diff", meta.get("checks") or [meta["property"]]))
    shutil.rmtree(SCRATCH, ignore_errors=True)
    os.makedirs(SCRATCH)
    sh("git -C /repo worktree prune")
    for i in range(args.jobs):
        r = sh(f"git -C /repo worktree add --detach {SCRATCH}/wt{i} HEAD")
        if r.returncode != 0:
            print(r.stderr); sys.exit(2)
    results = []
    try:
        import queue
        slots = queue.Queue()
        for i in range(args.jobs):
            slots.put(i)

        def task(item):
            slot = slots.get()
            try:
                out = run_one(slot, *item, args)
            finally:
                slots.put(slot)
            det = {c: (("DETECTED" + ("+replayed" if v.get("replay_exit") == 1 and v.get("replay_same_kind") else "/REPLAY-FAILED"))
                       if v["exit"] == 1 else ("clean" if v["exit"] == 0 else f"exit{v['exit']}")) for c, v in out.get("checks", {}).items()}
            print(f"{out['name']:42s} {det} {out.get('error', '')}", flush=True)
            return out
        with ThreadPoolExecutor(args.jobs) as ex:
            results = list(ex.map(task, todo))
    finally:
        for i in range(args.jobs):
            sh(f"git -C /repo worktree remove --force {SCRATCH}/wt{i}")
        sh("git -C /repo worktree prune")
        out = args.out or f"{VERIF}/mutants/RESULTS-{args.dir}.json"
        json.dump(results, open(out, "w"), indent=1)
        shutil.rmtree(SCRATCH, ignore_errors=True)


if __name__ == "__main__":
    main()

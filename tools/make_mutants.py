#!/venv/bin/python
"""Author's sensitivity mutants: each entry is (name, target check ids, file, [(old, new), ...]).
Writes mutants/<name>.diff against /repo's working tree and mutants/INDEX.json."""
import difflib, json, os, sys

M = []
def mut(name, checks, rel, *pairs, note=""):
    M.append((name, checks, rel, pairs, note))

C = "pygamma_agreement/continuum.py"
D = "pygamma_agreement/dissimilarity.py"
A = "pygamma_agreement/alignment.py"
S = "pygamma_agreement/sampler.py"
T = "pygamma_agreement/cst.py"
L = "pygamma_agreement/cli_apps.py"

# ---------------- C06 ----------------
mut("c06_sample_in_job", ["C06"], C,
    ("""                p.submit(job,
                         *(dissimilarity, sampler.sample_from_continuum))
                for _ in range(n_samples)""",
     """                p.submit(lambda d, s: job(d, s.sample_from_continuum),
                         *(dissimilarity, sampler))
                for _ in range(n_samples)"""), note="sample drawn inside the job instead of at submit")
mut("c06_as_completed", ["C06"], C,
    ("""            for i, result in enumerate(result_pool):
                chance_best_alignments.append(result.result())
                logging.info(f"finished computation of random sample dissimilarity {i + 1}/{n_samples}")""",
     """            from concurrent.futures import as_completed
            for i, result in enumerate(as_completed(result_pool)):
                chance_best_alignments.append(result.result())
                logging.info(f"finished computation of random sample dissimilarity {i + 1}/{n_samples}")"""),
    note="results collected in completion order")
mut("c06_hashset_annotators", ["C06"], S,
    ("""                rnd_annotator = np.random.choice(annotators)""",
     """                rnd_annotator = np.random.choice(list(set(annotators)))"""),
    note="hash-ordered container leaks into the shuffle sampler")
mut("c06_job_uses_rng", ["C06"], C,
    ("""    return continuum.get_best_alignment(dissimilarity)


def _compute_fast_alignment_job""",
     """    np.random.random()  # "warm up" the generator
    return continuum.get_best_alignment(dissimilarity)


def _compute_fast_alignment_job"""), note="a job consumes the global RNG")
mut("c06_gamma_k_as_completed", ["C06", "C12"], C,
    ("""            expected_disorder = float(np.mean(np.array([job_res.result() for job_res in chance_disorders_jobs])))

        return 1 - observed_disorder / expected_disorder""",
     """            from concurrent.futures import as_completed
            acc = np.float32(0)
            for job_res in as_completed(chance_disorders_jobs):
                acc = np.float32(acc + np.float32(job_res.result()))
            expected_disorder = float(acc / np.float32(len(chance_disorders_jobs)))

        return 1 - observed_disorder / expected_disorder"""),
    note="float32 accumulation in completion order -> gamma-k bits depend on the schedule")
# ---------------- C05 ----------------
mut("c05_second_batch_off_by_one", ["C05"], C,
    ("""                        for _ in range(required_samples - n_samples)
                    ]""", """                        for _ in range(required_samples - n_samples - 1)
                    ]"""))
mut("c05_confidence_constant", ["C05"], C, ("confidence = 1.96", "confidence = 1.645"))
mut("c05_low_precision_value", ["C05"], C, ('"low": 0.1', '"low": 0.05'))
mut("c05_expected_first_value_twice", ["C05"], C,
    ("""        return float(np.mean([align.disorder for align in self.chance_alignments]))""",
     """        return float(np.median([align.disorder for align in self.chance_alignments]))"""), note="median instead of mean")
mut("c05_reused_sample", ["C05"], C,
    ("""            result_pool = [
                # Step one : computing the disorders of a batch of random samples from the continuum (done in parallel)
                p.submit(job,
                         *(dissimilarity, sampler.sample_from_continuum))
                for _ in range(n_samples)
            ]""",
     """            samples = [sampler.sample_from_continuum for _ in range((n_samples + 1) // 2)]
            result_pool = [
                # Step one : computing the disorders of a batch of random samples from the continuum (done in parallel)
                p.submit(job,
                         *(dissimilarity, samples[i // 2]))
                for i in range(n_samples)
            ]"""), note="each sample used for two jobs")
mut("c05_soft_routed_to_exact", ["C05"], C,
    ("""def _compute_soft_alignment_job(dissimilarity: AbstractDissimilarity,
                                continuum: Continuum):
    return continuum.get_best_soft_alignment(dissimilarity)""",
     """def _compute_soft_alignment_job(dissimilarity: AbstractDissimilarity,
                                continuum: Continuum):
    if continuum.num_units > 6:
        return continuum.get_best_alignment(dissimilarity)
    return continuum.get_best_soft_alignment(dissimilarity)"""))
mut("c05_gamma_not_one_when_zero", ["C05"], C,
    ("""        if observed_disorder == 0:
            return 1
        return 1 - observed_disorder / self.expected_disorder""",
     """        return 1 - observed_disorder / (self.expected_disorder + 1e-9)"""))
# ---------------- C08 / C01 / C02 / C11 ----------------
mut("c08_glpk_half_constraint", ["C08", "C01", "C02"], C,
    ("""[1 <= matmul, matmul <= 1]).solve(solver=cp.GLPK_MI)""", """[1 <= matmul]).solve(solver=cp.GLPK_MI)"""),
    note="GLPK branch of the best alignment states only the cover half")
mut("c08_only_importerror", ["C08", "C01"], C,
    ("""            cp.Problem(cp.Minimize(disorders.T @ x), [A @ x == 1]).solve(solver=cp.CBC)
        except (ImportError, cp.SolverError):""",
     """            cp.Problem(cp.Minimize(disorders.T @ x), [A @ x == 1]).solve(solver=cp.CBC)
        except ImportError:"""), note="SolverError from CBC no longer falls back")
mut("c08_glpk_soft_equality", ["C08", "C11"], C,
    ("""            cp.Problem(cp.Minimize(disorders.T @ x), [A @ x >= 1]).solve(solver=cp.GLPK_MI)""",
     """            cp.Problem(cp.Minimize(disorders.T @ x), [A @ x == 1]).solve(solver=cp.GLPK_MI)"""),
    note="GLPK branch of the soft alignment solves the partition problem")
mut("c01_cover_instead_of_partition", ["C01", "C02", "C08"], C,
    ("""[A @ x == 1]).solve(solver=cp.CBC)""", """[A @ x >= 1]).solve(solver=cp.CBC)"""))
mut("c01_keep_all_empty_tuple", ["C01", "C02"], D,
    ("""disorders, alignments = disorders[:i_chosen - 1], alignments[:i_chosen - 1]""",
     """disorders, alignments = disorders[:i_chosen], alignments[:i_chosen]"""))
mut("c02_criterium_without_n", ["C02", "C11"], D,
    ("""criterium = c2n * delta_empty * nb_annotators""", """criterium = c2n * delta_empty * 2"""),
    note="pruning threshold right for 2 annotators only")
mut("c02_strict_criterium", ["C02"], D, ("""if disorder <= criterium:""", """if disorder < criterium * 0.75:"""))
mut("c02_empty_row_off", ["C02", "C11"], D,
    ("""                for annot_a in range(nb_annot_a + 1):
                    matrix[annot_a, nb_annot_b] = delta_empty""",
     """                for annot_a in range(nb_annot_a):
                    matrix[annot_a, nb_annot_b] = delta_empty
                matrix[nb_annot_a, nb_annot_b] = 0"""), note="empty/empty pair costs 0 instead of delta_empty")
mut("c11_soft_partition", ["C11"], C,
    ("""[A @ x >= 1]).solve(solver=cp.CBC)""", """[A @ x == 1]).solve(solver=cp.CBC)"""))
mut("c11_threshold", ["C11", "C02", "C01"], C,
    ("""        chosen_alignments_ids, = np.where(x.value > 0.9)

        chosen_alignments: np.ndarray = possible_unitary_alignments[chosen_alignments_ids]
        alignments_disorders: np.ndarray = disorders[chosen_alignments_ids]

        from .alignment import UnitaryAlignment, SoftAlignment""",
     """        chosen_alignments_ids, = np.where(x.value > 0.9)
        chosen_alignments_ids = chosen_alignments_ids[:max(1, len(chosen_alignments_ids) - (len(chosen_alignments_ids) > 4))]

        chosen_alignments: np.ndarray = possible_unitary_alignments[chosen_alignments_ids]
        alignments_disorders: np.ndarray = disorders[chosen_alignments_ids]

        from .alignment import UnitaryAlignment, SoftAlignment"""), note="soft decoding drops the last chosen unitary alignment when more than 4")
mut("c02_buffer_growth_loses_value", ["C02", "C01"], "pygamma_agreement/numba_utils.py",
    ("""    new_array = np.empty(len(arr) + n, dtype=np.float32)
    new_array[:len(arr)] = arr""", """    new_array = np.zeros(len(arr) + n, dtype=np.float32)
    new_array[:len(arr) - 1] = arr[:len(arr) - 1]"""),
    note="the disorder of the candidate at a buffer-growth boundary (10000th, 15000th ...) becomes 0: only continua with > 10000 candidates")
# ---------------- C10 ----------------
mut("c10_revert_progress_fix", ["C10"], A,
    ("""            if i > 0 and unitary_alignment.bounds[1] > x_limit:""", """            if unitary_alignment.bounds[1] > x_limit:"""))
mut("c10_limit_strict", ["C10"], A,
    ("""            if i > 0 and unitary_alignment.bounds[1] > x_limit:""", """            if i > 0 and unitary_alignment.bounds[1] >= x_limit:"""))
mut("c10_fast_when_disadvantageous", ["C10"], C,
    ("""    if continuum.best_window_size == np.inf:  # window size is set to infinity when normal gamma is better.
        return continuum.get_best_alignment(dissimilarity)
    return continuum.get_fast_alignment(dissimilarity, continuum.best_window_size)""",
     """    if continuum.best_window_size == np.inf:  # window size is set to infinity when normal gamma is better.
        return continuum.get_fast_alignment(dissimilarity, 1)
    return continuum.get_fast_alignment(dissimilarity, continuum.best_window_size)"""))
mut("c10_disorder_of_windows", ["C10"], C,
    ("""                         disorder=np.sum(disorders) / self.avg_num_annotations_per_annotator)

    def measure_best_window_size""",
     """                         disorder=np.sum(disorders) / copy.avg_num_annotations_per_annotator if copy else
                         np.sum(disorders) / self.avg_num_annotations_per_annotator)

    def measure_best_window_size"""), note="harmless variant (copy is empty at the end) - expected NOT detected")
mut("c10_remove_from_window_only", ["C10", "C14"], C,
    ("""        copy = self.copy()
        unitary_alignments = []
        disorders = []

        while copy:""", """        copy = self
        unitary_alignments = []
        disorders = []

        while copy:"""), note="fast alignment consumes its input")
# ---------------- C12 ----------------
mut("c12_weight_base", ["C12"], A, ("""                weight_base = 1 / (nv - 1)""", """                weight_base = 1 / nv"""),
    note="cancels for 2 annotators")
mut("c12_no_clamp", ["C12"], A, ("""                    weight_confidence = max(0, 1 - pos_dissim)""", """                    weight_confidence = 1 - pos_dissim"""))
mut("c12_gamma_cat_drops_last", ["C12"], C,
    ("""            chance_disorders_jobs = [
                p.submit(_compute_gamma_k_job,
                         *(self.dissimilarity, alignment, None))
                for alignment in self.chance_alignments
            ]""", """            chance_disorders_jobs = [
                p.submit(_compute_gamma_k_job,
                         *(self.dissimilarity, alignment, None))
                for alignment in self.chance_alignments[:max(1, len(self.chance_alignments) - 1)]
            ]"""))
mut("c12_empty_weight", ["C12"], A,
    ("""                           total_weight += dissimilarity.delta_empty""", """                           total_weight += 1"""),
    note="invisible when delta_empty == 1")
mut("c12_category_filter", ["C12"], A,
    ("""                    if category is not None and ((unit1 is None or unit1.annotation != category)
                                                 and (unit2 is None or unit2.annotation != category)):""",
     """                    if category is not None and ((unit1 is None or unit1.annotation != category)
                                                 or (unit2 is None or unit2.annotation != category)):"""))
# ---------------- C13 ----------------
mut("c13_revert_lt", ["C13"], C, ("""                return other.annotation is not None""", """                return True"""))
mut("c13_revert_copy_categories", ["C13"], C, ("""        continuum._categories = SortedSet(self._categories)\n""", ""))
mut("c13_merge_forgets_empty_annotators", ["C13"], C,
    ("""        for annotator in continuum.annotators:
            # ensure all annotators are added to the continuum,
            # even those who do not have any annotated Units
            current_cont.add_annotator(annotator)
""", ""))
mut("c13_reset_bounds_first_only", ["C13"], C,
    ("""        self.bound_sup = max((next(reversed(annotations)).segment.end for annotations in self._annotations.values() if annotations),""",
     """        self.bound_sup = max((next(reversed(annotations)).segment.end for annotations in list(self._annotations.values())[:2] if annotations),"""))
mut("c13_eq_ignores_last", ["C13"], C,
    ("""            elif my_unit != other_unit:
                return False""", """            elif my_unit.segment != other_unit.segment:
                return False"""), note="equality ignores labels")
mut("c13_bounds_sup_last_unit", ["C13"], C,
    ("""        self.bound_sup = max(self.bound_sup, segment.end)""", """        self.bound_sup = max(self.bound_sup, segment.end) if segment.start >= self.bound_inf else self.bound_sup"""),
    note="a unit starting before bound_inf does not raise bound_sup")
# ---------------- C14 ----------------
mut("c14_shallow_copy", ["C14", "C13"], C,
    ("""        continuum._annotations = deepcopy(self._annotations)""", """        continuum._annotations = SortedDict(self._annotations)"""))
mut("c14_getitem_no_copy", ["C14", "C13"], C, ("""                return deepcopy(self._annotations[keys])""", """                return self._annotations[keys]"""))
mut("c14_revert_cst_alias", ["C14"], T,
    ("""        continuum._categories = SortedSet(self._categories)""", """        continuum._categories = self._categories"""),
    note="corpora share the tool's category set (not the reference's)")
mut("c14_sampler_copies_categories_object", ["C14"], S,
    ("""        new_continnum = self._reference_continuum.copy_flush()""",
     """        new_continnum = self._reference_continuum.copy_flush()
        new_continnum._categories = self._reference_continuum._categories"""))
mut("c14_measure_window_resets_bounds", ["C14"], C,
    ("""        smallest_window, _ = self.get_first_window(dissimilarity, 1)
        smallest_window.get_best_alignment(dissimilarity)""",
     """        self.reset_bounds()
        smallest_window, _ = self.get_first_window(dissimilarity, 1)
        smallest_window.get_best_alignment(dissimilarity)"""), note="fast-mode gamma changes the input's bounds")
mut("c14_temp_modify_restore", ["C14"], C,
    ("""        sizes = np.empty(self.num_annotators, dtype=np.int32)
        for i, units in enumerate(self._annotations.values()):
            sizes[i] = len(units)

        disorders, possible_unitary_alignments = dissimilarity.valid_alignments(self)
        # Definition of the integer linear program
        n = len(disorders)
        # Constraints matrix ("every unit must appear once and only once")
        A = build_A(possible_unitary_alignments, sizes)

        x = cp.Variable(shape=(n,), boolean=True)
        try:
            import cylp
            cp.Problem(cp.Minimize(disorders.T @ x), [A @ x == 1]).solve(solver=cp.CBC)""",
     """        sizes = np.empty(self.num_annotators, dtype=np.int32)
        for i, units in enumerate(self._annotations.values()):
            sizes[i] = len(units)

        saved_bounds = self.bounds
        self.reset_bounds()  # tight bounds while the candidates are enumerated
        disorders, possible_unitary_alignments = dissimilarity.valid_alignments(self)
        self.bound_inf, self.bound_sup = saved_bounds
        # Definition of the integer linear program
        n = len(disorders)
        # Constraints matrix ("every unit must appear once and only once")
        A = build_A(possible_unitary_alignments, sizes)

        x = cp.Variable(shape=(n,), boolean=True)
        try:
            import cylp
            cp.Problem(cp.Minimize(disorders.T @ x), [A @ x == 1]).solve(solver=cp.CBC)"""),
    note="the best-alignment job changes the input's bounds and restores them: invisible after the call, visible to an observer thread")
# ---------------- C15 ----------------
mut("c15_uniform_categories", ["C15"], S,
    ("""                category = np.random.choice(self._categories, p=self._categories_weight)""",
     """                category = np.random.choice(self._categories)"""))
mut("c15_gap_from_duration", ["C15"], S,
    ("""                gap = np.random.normal(self._avg_gap, self._std_gap)""",
     """                gap = np.random.normal(self._avg_unit_duration, self._std_gap)"""))
mut("c15_no_nonempty_guard", ["C15"], S,
    ("""            if not new_continnum:
                nb_units = max(1, nb_units)""", """            pass"""))
mut("c15_std_as_variance", ["C15"], S,
    ("""        self._std_unit_duration = float(np.std(durations))""", """        self._std_unit_duration = float(np.var(durations))"""))
mut("c15_all_reference_annotators", ["C15"], S,
    ("""        new_continnum = self._reference_continuum.copy_flush()
        for annotator in self._ground_truth_annotators:""",
     """        new_continnum = self._reference_continuum.copy_flush()
        for annotator in self._reference_continuum.annotators:"""), note="ground-truth subset ignored")
# ---------------- C16 ----------------
mut("c16_wrap_ge", ["C16"], S,
    ("""                    if unit.segment.start + pivot > bound_sup:""", """                    if unit.segment.end + pivot > bound_sup:"""),
    note="wraps units that END beyond the bound")
mut("c16_revert_exclusion_fix", ["C16"], S,
    ("""            if segment.end <= pivot - dist or segment.start >= pivot + dist:
                # the segment doesn't intersect the removed one : it is left untouched
                new_segments.append(segment)
                continue
""", ""))
mut("c16_half_distance", ["C16"], S,
    ("""        min_dist_between_pivots = continuum.avg_length_unit / 2""", """        min_dist_between_pivots = continuum.avg_length_unit / 4"""))
mut("c16_pivot_per_unit", ["C16"], S,
    ("""                for unit in continuum.iter_annotator(rnd_annotator):
                    if unit.segment.start + pivot > bound_sup:""",
     """                for unit_i, unit in enumerate(continuum.iter_annotator(rnd_annotator)):
                    if unit_i == 7:
                        pivot = pivot / 2
                    if unit.segment.start + pivot > bound_sup:"""), note="8th unit onwards shifted by another pivot")
mut("c16_revert_int_pivot_fix", ["C16"], S,
    ("""            if pivot < segment.start and pivot + 1 <= segment.end:""", """            if False and pivot < segment.start and pivot + 1 <= segment.end:"""),
    note="integer truncation may leave the available segment again (the repaired known finding)")
# ---------------- C19 ----------------
mut("c19_no_security_unit", ["C19"], T,
    ("""            if len(continuum._annotations[annotator]) == 0:
                continuum.add(annotator, security.segment, security.annotation)""", """            pass"""))
mut("c19_revert_split_fix", ["C19"], T,
    ("""                cut = numpy.random.uniform(to_split.segment.start + security, to_split.segment.end - security)""",
     """                cut = numpy.random.uniform(to_split.segment.start + security, to_split.segment.end + security)"""),
    note="cut may fall beyond the end of the unit")
mut("c19_shift_at_m0", ["C19"], T,
    ("""        shift_max = self.magnitude * self.SHIFT_FACTOR * \\
            self._reference_continuum.avg_length_unit""",
     """        shift_max = max(self.magnitude, 1e-3) * self.SHIFT_FACTOR * \\
            self._reference_continuum.avg_length_unit"""), note="magnitude 0 still shifts a little")
mut("c19_catshuffle_drops_dupe", ["C19"], T,
    ("""                continuum.add(annotator, Segment(unit.segment.start, unit.segment.end), new_category)
                del unit""", """                if new_category != unit.annotation or np.random.random() > 0.02:
                    continuum.add(annotator, Segment(unit.segment.start, unit.segment.end), new_category)
                del unit"""), note="category shuffle rarely loses a unit")
mut("c19_false_pos_uniform_category", ["C19"], T,
    ("""                category = np.random.choice(category_weights.keys(), p=category_weights.values())""",
     """                category = np.random.choice(list(self._categories) + ["other"])"""), note="false positives may carry a foreign label")
mut("c19_revert_shift_precision_fix", ["C19"], T,
    ("""                while end_seg - start_seg <= SEGMENT_PRECISION:""", """                while start_seg >= end_seg:"""),
    note="shifted segments shorter than the segment precision are passed to add() again (needs ~1e7 shifted units: thorough tier)")
# ---------------- C20 ----------------
mut("c20_revert_numerical", ["C20"], L, ("""        elif args.cat_dissim == "numerical":""", """        elif args.cat_dissim == "ordinal":"""))
mut("c20_ignore_empty_delta", ["C20"], L, ("""                                                  delta_empty=args.empty_delta,\n""", ""))
mut("c20_seed_per_file", ["C20"], L,
    ("""    for file_path in input_files:
        start = time.time()""", """    for file_path in input_files:
        if args.seed is not None:
            np.random.seed(args.seed)
        start = time.time()"""), note="re-seeds for every file: only visible with >= 2 files")
mut("c20_json_first_value", ["C20"], L,
    ("""            json_dict[str(result[0])] = {label: result for (label, result) in zip(labels[1:], result[1:])}""",
     """            json_dict[str(result[0])] = {label: results[0][i + 1] for (i, label) in enumerate(labels[1:])}"""),
    note="JSON report repeats the first file's values")
mut("c20_beta_as_alpha", ["C20"], L, ("""                                                  beta=args.beta,""", """                                                  beta=args.alpha,"""))


def main():
    os.makedirs("/verif/mutants", exist_ok=True)
    index = []
    bad = 0
    for name, checks, rel, pairs, note in M:
        src = open(f"/repo/{rel}").read()
        new = src
        ok = True
        for old, rep in pairs:
            if new.count(old) != 1:
                print(f"!! {name}: pattern occurs {new.count(old)}x: {old[:60]!r}")
                ok = False
                break
            new = new.replace(old, rep)
        if not ok:
            bad += 1
            continue
        diff = "".join(difflib.unified_diff(src.splitlines(True), new.splitlines(True), f"a/{rel}", f"b/{rel}"))
        open(f"/verif/mutants/{name}.diff", "w").write(diff)
        index.append({"name": name, "checks": checks, "file": rel, "note": note})
    json.dump(index, open("/verif/mutants/INDEX.json", "w"), indent=1)
    print(f"{len(index)} mutants written, {bad} failed")


if __name__ == "__main__":
    main()
